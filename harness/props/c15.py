"""C15 -- a workflow's inputs and outputs are exactly its children's open channels.

A case is a pair of constructor maps and an edit history on ONE real Workflow: add / remove
children (function nodes of a fixed table of kinds), connect / disconnect data channels, set
inputs_map / outputs_map (rename, expose a connected channel, hide with None, duplicate names,
names that shadow another channel's default key), assign values and channels THROUGH the
workflow panel, run.  After every operation the driver reads

  * the raw structure through the children themselves (labels, channel objects identified by
    the id they got at creation, their connections and values) and the stored maps,
  * wf.inputs and wf.outputs: keys and, by an `is` search over every channel ever created, the
    id of the object held under each key.

model_term evaluates coq/theories/WfIO.v on the same history; the oracle recomputes what the
PROPERTY demands from the raw structure alone (never from the model) and compares.
"""
from __future__ import annotations

import json

from harness import lib
from harness.lib import cl, cn, cs, cz

from pyiron_workflow.nodes.function import as_function_node

PROP = "C15"
IMPORTS = "Base WfIO"
RULE = ("constructor maps + history of 4-22 operations on one Workflow: add (9 node kinds, labels from a pool that "
        "is '__'-free in 2/3 of the cases and collision-prone -- a, a__b, a_, b__c -- in the rest), remove, connect / "
        "disconnect / disconnect_all between children, inputs_map / outputs_map assignments (rename, expose a "
        "connected channel, hide with None incl. several None, duplicate names, names shadowing another default key, "
        "unknown keys, None), value and channel assignment through wf.inputs[...], run with/without keyword "
        "arguments in the spellings wf.run(**kw) / wf(**kw) / wf.set_input_values(**kw) (cyclic graphs included), values "
        "also by ITEM access wf.inputs[key].value = v and wf.inputs[key] = wf.outputs[okey]; channel names and map "
        "names drawn from the IO panels' own attribute names (items, labels, ready, fetch, connected, to_list, "
        "connections) and every panel entry re-read by item access; values "
        "typed int/bool/float and half of the time == to the held value but of another type, a child leaving by "
        "node.parent = None / = another workflow, pulling ONE child (child.pull() / child() -- the latter first lets the workflow fetch its exposed inputs, "
        "connected ones included --, only on acyclic data with readable panels; child labels ending in a digit get a node whose id contains that digit), re-adding a REMOVED node object (same or new label), relabelling a "
        "current child by add_child(child, label=new), replace_child by a fresh or a previously removed node of the "
        "same kind (only where the replaced child is unconnected and no connected channel is exposed), IN-PLACE edits "
        "of the map object handed out by wf.inputs_map / wf.outputs_map (item assignment incl. names already used by "
        "another key and None, del, update) on maps that are None, empty ({} by setter or constructor) or non-empty; ~85% of the operations are biased to be applicable. Non-trivial = the "
        "workflow had >=2 children and a map or a connection at some point; distinct = distinct (maps, history)")
TRUSTED = ["children are run with use_cache = False (their own caching is C05's); the workflow's cache stays on",
           "channel identity is observed by an `is` search over every channel object created by the driver",
           "model and implementation observations are compared step by step through a 61-bit polynomial hash "
           "computed by the same recipe on both sides (WfIO.ohash / c15.ohash); model_term_full gives the tree",
           "after an exception in run() the driver resets wf.failed / wf.running (what a user has to do as well)"]
ASSUMPTIONS = ["children are function nodes without type hints and with defaults for every argument (always ready, "
               "never failing); no executors; maps are dicts with str / None values given to the setters or the "
               "constructor (bidict arguments and non-str values are not exercised); channels are connected only "
               "between children of the workflow; labels are not edited after adoption; replace_child is C14's; "
               "an in-place .update() carries at most one None value (two raw None are duplicates for bidict itself)",
               "C15_available_partial assumes child labels free of '__' and not ending in '_' (then "
               "child.label ++ '__' ++ channel.label is injective: lemma scoped_inj_good) and no map name equal to "
               "the default key of an exposed unmapped channel; both guards are refuted without (S18, S33)"]


# ---- node kinds (module level: the library reads their source); same table as WfIO.kind_spec ----
@as_function_node("y")
def K0Inc(x=0):
    return x + 1


@as_function_node("s", "d")
def K1Lin(x=1, y=2):
    return 2 * x + 3 * y + 5, x - y


@as_function_node("c")
def K2Na(b__c=3):
    return 7 * b__c + 1


@as_function_node("b__c")
def K3Nb(c=4):
    return 5 * c + 2


@as_function_node("y")
def K4Src():
    return 11


@as_function_node("c", "a__b")
def K5Mix(a__b=5, c=6):
    return a__b + 10 * c + 3, 3 * a__b - c


@as_function_node("x")
def K6Same(x=1):
    x = 2 * x + 1
    return x


@as_function_node("y")
def K7Und(_b=2):
    return _b + 13


@as_function_node("_y")
def K8Bb(b=1):
    return 3 * b + 4


# channel names that the IO panels also carry as attributes of their own (dir(Inputs) / dir(Outputs)):
# dot access can never reach such a channel, item access panel[name] is the only way in
@as_function_node("labels")
def K9Tag(items=2):
    return 4 * items + 2


@as_function_node("connected", "to_list")
def K10Cnt(ready=1, fetch=3):
    return ready + fetch, ready - 2 * fetch


KINDS = [K0Inc, K1Lin, K2Na, K3Nb, K4Src, K5Mix, K6Same, K7Und, K8Bb, K9Tag, K10Cnt]
KIN = [["x"], ["x", "y"], ["b__c"], ["c"], [], ["a__b", "c"], ["x"], ["_b"], ["b"], ["items"], ["ready", "fetch"]]
KOUT = [["y"], ["s", "d"], ["c"], ["b__c"], ["y"], ["c", "a__b"], ["x"], ["y"], ["_y"], ["labels"],
        ["connected", "to_list"]]

PLAIN_LABELS = ["a", "b", "c", "n", "m", "n0", "step8"]
TRICKY_LABELS = ["a", "a__b", "a_", "b", "b__c", "a__b__c", "a1"]
NAMES = ["p", "q", "r", "x", "in1", "out", "a__x", "b__y", "items", "labels", "ready", "fetch", "connected", "to_list",
         "connections"]


def scoped(c, l):
    return f"{c}__{l}"


# channel values carry their Python type: a case value is an int (legacy) or ["i"|"b"|"f", n]
KDEF = [[0], [1, 2], [3], [4], [], [5, 6], [1], [2], [1], [2], [1, 3]]


def tval(x):
    """case value -> the python object handed to the library"""
    if isinstance(x, list):
        return {"i": int, "b": bool, "f": float}[x[0]](x[1])
    return x


def rval(x):
    """case value -> its rendering in observations"""
    return list(x) if isinstance(x, list) else ["i", x]


def encz(x):
    """case value -> WfIO.enc tag z"""
    t, n = rval(x)
    return 3 * n + {"i": 0, "b": 1, "f": 2}[t]


# ---- what the property demands, from a raw structure snapshot ------------------------------------
def expected_panel(children, kmap, d):
    """[(key, cid)] in loop order for direction d (0 = inputs, 1 = outputs).  children: the
    snapshot's [label, ins, outs] with channels [label, cid, conns, value]; kmap: 'nomap' or
    [[key, name|None]].  Each entry also carries how the key arose (for cause attribution)."""
    m = {} if kmap == "nomap" else {k: v for k, v in kmap}
    out = []
    # a connection counts when it leads to a channel of a (current) child: a leftover link to a
    # node that has left the workflow feeds nothing and must not hide the channel
    live = {ch[1] for _, ins, outs in children for ch in ins + outs}
    for lab, ins, outs in children:
        for l, cid, conns, _ in (ins, outs)[d]:
            k = scoped(lab, l)
            if k in m:
                if isinstance(m[k], str):
                    out.append((m[k], cid, "mapped", k))
            elif not [c for c in conns if c in live]:
                out.append((k, cid, "default", k))
    return out


def collision(entries):
    """None, or (tag, detail) for two entries with one key"""
    seen = {}
    for key, cid, how, sk in entries:
        if key in seen:
            cid0, how0, sk0 = seen[key]
            if sk0 == sk:
                tag = "scoped"            # two channels, one child.label__channel.label
            elif how0 != how:
                tag = "shadow"            # a map name equals another exposed channel's default key
            else:
                tag = "other"
            return tag, f"channels {cid0} and {cid} both claim key {key!r} ({how0} from {sk0!r}, {how} from {sk!r})"
        seen[key] = (cid, how, sk)
    return None


# ---- generation ---------------------------------------------------------------------------------------
class _Sim:
    """generator-side bookkeeping to bias towards applicable operations (not used by driver,
    model or oracle)"""

    def __init__(self):
        self.kids = []            # [label, kind]
        self.conns = []           # (ic, il, oc, ol)
        self.maps = [None, None]
        self.shelf = []           # [label, kind] of removed nodes, newest first

    def take_shelf(self, label):
        for i, x in enumerate(self.shelf):
            if x[0] == label:
                return self.shelf.pop(i)
        return None

    def exposed_connected(self):
        return any(self.connected(d, c, l) for d in (0, 1) for _, c, l in self.panel_keys(d))

    def labels(self):
        return [k[0] for k in self.kids]

    def chans(self, d):
        return [(lab, l) for lab, kind in self.kids for l in (KIN, KOUT)[d][kind]]

    def connected(self, d, c, l):
        return any((x[0], x[1]) == (c, l) if d == 0 else (x[2], x[3]) == (c, l) for x in self.conns)

    def panel_keys(self, d):
        m = dict(self.maps[d] or [])
        out = []
        for c, l in self.chans(d):
            k = scoped(c, l)
            if k in m:
                if m[k] is not None:
                    out.append((m[k], c, l))
            elif not self.connected(d, c, l):
                out.append((k, c, l))
        return out


def _sim_collides(sim):
    return any(len({k for k, _, _ in sim.panel_keys(d)}) < len(sim.panel_keys(d)) for d in (0, 1))


def gen_map(rng, sim, d):
    r = rng.random()
    if r < 0.08:
        return None
    if r < 0.2:
        return []                  # an EMPTY map, to be filled in place later
    chans = sim.chans(d)
    keys = [scoped(c, l) for c, l in chans]
    keys = list(dict.fromkeys(keys))
    rng.shuffle(keys)
    n = rng.choice([0, 1, 1, 2, 2, 3, 4])
    keys = keys[:n]
    if rng.random() < 0.15:
        keys.append(rng.choice(["zz__x", "a__nope", "n__y"]))
    keys = list(dict.fromkeys(keys))
    pairs = []
    free = [x for x in NAMES]
    rng.shuffle(free)
    for k in keys:
        q = rng.random()
        if q < 0.25:
            v = None
        elif q < 0.33 and pairs and any(p[1] is not None for p in pairs):
            v = rng.choice([p[1] for p in pairs if p[1] is not None])      # duplicate name
        elif q < 0.45 and chans:
            c, l = rng.choice(chans)
            v = scoped(c, l)                                              # some default key (shadow / identity / swap)
        else:
            v = free.pop() if free else "z"
        pairs.append([k, v])
    return pairs


def gen_case(rng, n_ops, tricky):
    sim = _Sim()
    labels = TRICKY_LABELS if tricky else PLAIN_LABELS
    kinds = [2, 3, 5, 7, 8, 0, 1] if tricky else [0, 0, 1, 1, 4, 5, 6, 2, 3, 9, 9, 10, 10]
    im = gen_map(rng, sim, 0) if rng.random() < 0.1 else None
    om = gen_map(rng, sim, 1) if rng.random() < 0.1 else None
    if rng.random() < 0.08:
        im = [["a__x", "q"], ["b__x", rng.choice(["q", "r", None])]]
    if rng.random() < 0.12:
        im = []
    if rng.random() < 0.12:
        om = []
    dup = lambda m: m is not None and len({v for _, v in m if v is not None}) < len([v for _, v in m if v is not None])
    sim.maps = [None if dup(im) else im, None if dup(om) else om]
    ops = []
    fresh = [1000]

    last = {}                # panel key -> number last assigned through it (generator-side only)

    def val(key=None, c=None, l=None):
        """a typed value; half of the time EQUAL (==) to what the channel probably holds -- its default or
        the number assigned last -- but of another Python type (False/0/0.0, True/1/1.0, 5/5.0)"""
        r = rng.random()
        held = last.get(key)
        if held is None and c is not None:
            kind = next((x[1] for x in sim.kids if x[0] == c), None)
            if kind is not None and l in KIN[kind]:
                held = KDEF[kind][KIN[kind].index(l)]
        if held is not None and r < 0.5:
            n = held
        elif r < 0.65:
            n = rng.choice([0, 1, 2, 3])
        else:
            fresh[0] += 7
            n = fresh[0]
        t = rng.choice(["i", "f", "f", "b"] if n in (0, 1) else ["i", "i", "f"])
        if key is not None:
            last[key] = n
        return n if t == "i" and rng.random() < 0.5 else [t, n]

    for step in range(n_ops):
        wild = rng.random() < 0.15
        if len(sim.kids) < 2 and not wild and rng.random() < 0.8:
            k = "add"
        else:
            k = rng.choice(["add"] * 4 + ["rm"] * 2 + ["orphan", "move"] + ["setin"] * 2 + ["pull"] * 3 + ["iset"] * 2 + ["wcon2"] * 2 + ["con"] * 5 + ["dis", "disall"] + ["map"] * 6 + ["set"] * 3
                           + ["wcon"] + ["run"] * 4 + ["readd"] * 3 + ["relabel"] * 2 + ["replace"] * 2
                           + ["mset"] * 5 + ["mdel"] + ["mupd"] * 2)
            if k in ("mset", "mdel", "mupd") and not wild:
                d0 = rng.choice([0, 1])
                if sim.maps[d0] is None and rng.random() < 0.8:
                    ops.append(["map", d0, []])       # start from an empty map, then edit it in place
                    sim.maps[d0] = []
            if k == "readd" and not sim.shelf and not wild:
                k = "rm" if len(sim.kids) > 2 else "add"
            if k in ("relabel", "replace", "pull") and not sim.kids:
                k = "add"
        if k == "add":
            free = [l for l in labels if l not in sim.labels()]
            lab = rng.choice(labels) if wild or not free else rng.choice(free)
            kind = rng.choice(kinds)
            ops.append(["add", kind, lab])
            if lab not in sim.labels():
                sim.kids.append([lab, kind])
        elif k in ("rm", "orphan", "move"):
            busy = [x[0] for x in sim.kids if any(x[0] in (t[0], t[2]) for t in sim.conns)]
            lab = rng.choice(labels) if wild or not sim.kids else rng.choice(busy * 2 + sim.labels())
            ops.append([k, lab])
            if lab in sim.labels():
                sim.shelf.insert(0, [x for x in sim.kids if x[0] == lab][0])
                sim.kids = [x for x in sim.kids if x[0] != lab]
                sim.conns = [x for x in sim.conns if lab not in (x[0], x[2])]
        elif k == "pull":
            fed = [t[0] for t in sim.conns]                      # children with something upstream
            lab = rng.choice(labels) if wild else rng.choice(fed * 2 + sim.labels())
            ops.append(["pull", lab, rng.random() < 0.3])
        elif k == "readd":
            sl = rng.choice(labels + ["spare"]) if wild or not sim.shelf else rng.choice(sim.shelf)[0]
            free = [l for l in labels if l not in sim.labels()]
            r = rng.random()
            nl = None if r < 0.3 else (rng.choice(labels) if wild or not free else rng.choice(free))
            ops.append(["readd", sl, nl])
            node = next((x for x in sim.shelf if x[0] == sl), None)
            if node is not None and (nl or sl) not in sim.labels():
                sim.take_shelf(sl)
                sim.kids.append([nl or sl, node[1]])
        elif k == "relabel":
            cur = rng.choice(labels) if wild else rng.choice(sim.labels())
            free = [l for l in labels if l not in sim.labels()]
            new = rng.choice(labels) if wild or not free or rng.random() < 0.1 else rng.choice(free)
            ops.append(["relabel", cur, new])
            if cur in sim.labels() and new not in sim.labels():
                node = [x for x in sim.kids if x[0] == cur][0]
                sim.kids = [x for x in sim.kids if x[0] != cur] + [[new, node[1]]]
                ren = lambda z: new if z == cur else z
                sim.conns = [(ren(a), b, ren(c), e) for a, b, c, e in sim.conns]
        elif k == "replace":
            quiet = [x for x in sim.kids if not any(sim.connected(d, x[0], l) for d in (0, 1)
                                                     for l in (KIN, KOUT)[d][x[1]])]
            cur = rng.choice(labels) if wild else rng.choice(quiet or sim.kids)[0]
            node = next((x for x in sim.kids if x[0] == cur), None)
            same = [x for x in sim.shelf if node is not None and x[1] == node[1]]
            r = rng.random()
            src = None if r < 0.5 or (not same and not wild) else (rng.choice(same)[0] if same and not wild
                                                                    else rng.choice(labels + ["spare"]))
            ops.append(["replace", cur, src])
            rep = [None, node[1] if node else 0] if src is None else next((x for x in sim.shelf if x[0] == src), None)
            if (node is not None and rep is not None and rep[1] == node[1] and node in quiet
                    and not sim.exposed_connected() and not _sim_collides(sim)):
                if src is not None:
                    sim.take_shelf(src)
                sim.kids = [x for x in sim.kids if x[0] != cur] + [[cur, node[1]]]
                sim.shelf.insert(0, [src or "spare", node[1]])
        elif k in ("con", "dis"):
            ins, outs = sim.chans(0), sim.chans(1)
            if wild or not ins or not outs:
                c = [rng.choice(labels), rng.choice(["x", "y", "c"]), rng.choice(labels), rng.choice(["y", "s", "c"])]
            elif k == "dis" and sim.conns and rng.random() < 0.8:
                c = list(rng.choice(sim.conns))
            else:
                i, o = rng.choice(ins), rng.choice(outs)
                if rng.random() < 0.85:      # mostly forward edges (acyclic), so that runs succeed
                    order = sim.labels()
                    for _ in range(6):
                        if order.index(o[0]) < order.index(i[0]):
                            break
                        i, o = rng.choice(ins), rng.choice(outs)
                c = [i[0], i[1], o[0], o[1]]
            ops.append([k] + c)
            t = tuple(c)
            if (c[0], c[1]) in sim.chans(0) and (c[2], c[3]) in sim.chans(1):
                if k == "con" and t not in sim.conns:
                    sim.conns.insert(0, t)
                if k == "dis" and t in sim.conns:
                    sim.conns.remove(t)
        elif k == "disall":
            d = rng.choice([0, 1])
            ch = sim.chans(d)
            busy = [x for x in ch if sim.connected(d, *x)]
            if wild or not ch:
                c, l = rng.choice(labels), "x"
            else:
                c, l = rng.choice(busy or ch)
            ops.append(["disall", d, c, l])
            sim.conns = [x for x in sim.conns if ((x[0], x[1]) if d == 0 else (x[2], x[3])) != (c, l)]
        elif k == "map":
            d = rng.choice([0, 1])
            m = gen_map(rng, sim, d)
            ops.append(["map", d, m])
            if not dup(m):
                sim.maps[d] = m
        elif k in ("mset", "mdel", "mupd"):
            d = rng.choice([0, 1])
            if sim.maps[d] is None and sim.maps[1 - d] is not None and rng.random() < 0.8:
                d = 1 - d
            cur = dict(sim.maps[d] or [])
            chans = [scoped(c, l) for c, l in sim.chans(d)] or ["a__x"]
            used = [v for v in cur.values() if v is not None]

            def pick_val(key):
                q = rng.random()
                others = [v for kk, v in cur.items() if v is not None and kk != key]
                if q < 0.35 and others:
                    return rng.choice(others)                  # a name another key already carries
                if q < 0.5:
                    return None
                if q < 0.6 and chans:
                    return rng.choice(chans)                   # some default key (shadow / identity)
                return rng.choice(NAMES + ["u", "v", "w"])
            if k == "mset":
                key = rng.choice(list(cur) + chans * 2) if not wild else rng.choice(["zz__x"] + chans)
                v_ = pick_val(key)
                ops.append(["mset", d, key, v_])
                if sim.maps[d] is not None and not (v_ is not None and any(v == v_ and kk != key for kk, v in cur.items())):
                    cur[key] = v_
                    sim.maps[d] = [[a, b] for a, b in cur.items()]
            elif k == "mdel":
                key = rng.choice(list(cur)) if cur and not wild else rng.choice(chans)
                ops.append(["mdel", d, key])
                if sim.maps[d] is not None and key in cur:
                    del cur[key]
                    sim.maps[d] = [[a, b] for a, b in cur.items()]
            else:
                keys = list(dict.fromkeys(rng.choice(list(cur) + chans * 2) for _ in range(rng.choice([1, 2, 2, 3]))))
                pairs, nones = [], 0
                for key in keys:
                    v_ = pick_val(key)
                    if v_ is None:
                        nones += 1
                        if nones > 1:            # two raw None in ONE update are duplicates for bidict
                            v_ = rng.choice(NAMES)
                    if rng.random() < 0.15 and pairs and pairs[-1][1] is not None:
                        v_ = pairs[-1][1]        # the same name twice inside one update
                    pairs.append([key, v_])
                ops.append(["mupd", d, pairs])
                if sim.maps[d] is not None:
                    new, ok = dict(cur), True
                    for key, v_ in pairs:
                        if v_ is not None and any(v == v_ and kk != key for kk, v in new.items()):
                            ok = False
                            break
                        new[key] = v_
                    if ok:
                        sim.maps[d] = [[a, b] for a, b in new.items()]
        elif k == "set":
            keys = sim.panel_keys(0)
            if wild or not keys:
                ops.append(["set", rng.choice(["nokey", "a__x", "q"]), val()])
            else:
                key, c, l = rng.choice(keys)
                ops.append(["set", key, val(key, c, l)])
        elif k == "iset":
            keys = sim.panel_keys(0)
            if wild or not keys:
                ops.append(["iset", rng.choice(["nokey", "items", "labels"]), val()])
            else:
                key, c, l = rng.choice(keys)
                ops.append(["iset", key, val(key, c, l)])
        elif k == "wcon2":
            keys, okeys = sim.panel_keys(0), sim.panel_keys(1)
            if wild or not keys or not okeys:
                ops.append(["wcon2", rng.choice(["nokey", "items"] + [x[0] for x in keys]),
                            rng.choice(["nokey", "labels"] + [x[0] for x in okeys])])
            else:
                (key, c, l), (okey, oc, ol) = rng.choice(keys), rng.choice(okeys)
                order = sim.labels()
                for _ in range(6):           # mostly forward edges
                    if order.index(oc) < order.index(c):
                        break
                    (key, c, l), (okey, oc, ol) = rng.choice(keys), rng.choice(okeys)
                ops.append(["wcon2", key, okey])
                t = (c, l, oc, ol)
                if t not in sim.conns:
                    sim.conns.insert(0, t)
        elif k == "wcon":
            keys = sim.panel_keys(0)
            outs = sim.chans(1)
            if not outs:
                continue
            o = rng.choice(outs)
            if wild or not keys:
                key = rng.choice(["nokey", "a__x"])
                ops.append(["wcon", key, o[0], o[1]])
            else:
                key, c, l = rng.choice(keys)
                ops.append(["wcon", key, o[0], o[1]])
                t = (c, l, o[0], o[1])
                if t not in sim.conns:
                    sim.conns.insert(0, t)
        else:
            keys = sim.panel_keys(0)
            kw = []
            if keys and (k == "setin" or rng.random() < 0.6):
                for key, c, l in rng.sample(keys, min(len(keys), rng.choice([1, 1, 2]))):
                    if key not in [x[0] for x in kw]:
                        kw.append([key, val(key, c, l)])
            if wild and rng.random() < 0.5:
                kw.append(["nokey", val()])
            if k == "setin":
                ops.append(["setin", kw])
            else:
                ops.append(["run", kw, rng.choice(["run", "call"])])
    return {"im": im, "om": om, "ops": ops}


def generate(ctx):
    rng = ctx.rng
    cases, seen = [], set()
    n = ctx.n(650, 9000)
    while len(cases) < n:
        c = gen_case(rng, rng.choice([4, 7, 10, 14, 18] if ctx.quick else [6, 10, 14, 18, 22]), rng.random() < 0.33)
        k = json.dumps(c, sort_keys=True)
        if k in seen:
            continue
        seen.add(k)
        cases.append(c)
    return cases


def corpus(ctx):
    out = []
    for p in sorted((lib.VERIF / "corpus" / PROP).glob("*.json")):
        out.extend(json.loads(p.read_text()))
    return out


# ---- implementation driver ------------------------------------------------------------------------------
def _dict(m):
    return None if m is None else {k: v for k, v in m}


def run_impl(case):
    from pyiron_workflow import Workflow
    from pyiron_workflow.channels import NOT_DATA

    try:
        wf = Workflow("w15", autoload=None, inputs_map=_dict(case["im"]), outputs_map=_dict(case["om"]))
    except Exception as e:
        return [[type(e).__name__]]
    wf.recovery = None       # a failed run must not leave a recovery file in the working directory
    reg = []                 # (channel object, id): every channel ever created, looked up by identity
    shelf = []               # node objects removed from the workflow and kept by the "user", newest first
    kind_of = {}             # id(node object) -> kind

    other = []               # a second workflow, for node.parent = other_workflow
    junk = []

    def data_cyclic():
        kids = list(wf.children.values())
        up = {id(n): [c.owner for ch in n.inputs for c in ch.connections] for n in kids}
        state = {}

        def visit(n):
            if state.get(id(n)) == 1:
                return True
            if state.get(id(n)) == 2 or id(n) not in up:
                return False
            state[id(n)] = 1
            r = any(visit(m) for m in up[id(n)])
            state[id(n)] = 2
            return r
        return any(visit(n) for n in kids)

    def register(node, kind):
        kind_of[id(node)] = kind
        node.use_cache = False   # children always recompute (their own caching is C05's)
        for ch in list(node.inputs) + list(node.outputs):
            reg.append((ch, len(reg)))

    def from_shelf(label):
        for n in shelf:
            if n.label == label:
                if n.parent is not None:          # it sits in the other workflow: take it out first
                    n.parent.remove_child(n)
                return n
        return None

    def cid(ch):
        for o, i in reg:
            if o is ch:
                return i
        return -1

    def v(x):
        if x is NOT_DATA:
            return "ND"
        if isinstance(x, bool):
            return ["b", int(x)]
        if isinstance(x, int):
            return ["i", x]
        if isinstance(x, float) and x == int(x):
            return ["f", int(x)]
        return "?"

    def ks(k):
        return k if isinstance(k, str) else "<" + repr(k)[:60] + ">"

    def mapobs(m):
        if m is None:
            return "nomap"
        return [[ks(k), x if isinstance(x, str) else None] for k, x in m.items()]

    def snap():
        kids = []
        for lab, node in wf.children.items():
            ins = [[l, cid(ch), [cid(c) for c in ch.connections], v(ch.value)] for l, ch in node.inputs.items()]
            outs = [[l, cid(ch), [cid(c) for c in ch.connections], v(ch.value)] for l, ch in node.outputs.items()]
            kids.append([lab, ins, outs])
        return [kids, mapobs(wf.inputs_map), mapobs(wf.outputs_map), [n.label for n in shelf]]

    def panel(which):
        try:
            p = getattr(wf, which)
            ent = [[k, ch] for k, ch in p.items()]
            by_item = []
            for k, _ in ent:                      # the same entries fetched by ITEM access panel[key]
                try:
                    by_item.append(cid(p[k]))
                except Exception:
                    by_item.append(-2)
            return ["ok", [[ks(k), cid(ch)] for k, ch in ent], by_item]
        except Exception as e:
            return [type(e).__name__]

    def look():
        # the panels are read BEFORE the maps: reading wf.inputs_map / wf.outputs_map normalises the stored map (a bare
        # None becomes the disabled marker), and what the panels show must not depend on somebody having looked
        p_in, p_out = panel("inputs"), panel("outputs")
        return [snap(), p_in, p_out]

    def chan(d, c, l):
        if c not in wf.children:
            return None
        p = wf.children[c].inputs if d == 0 else wf.children[c].outputs
        return p[l] if l in p.labels else None

    def do(op):
        k = op[0]
        if k == "add":
            node = KINDS[op[1]](label=op[2])
            if op[2][-1:].isdigit():
                # make the node's id contain the label's last digit (label-restoring code that strips
                # id digits then has something to strip): try other objects, keeping the rejected ones alive
                for _ in range(40):
                    if op[2][-1] in str(id(node)):
                        break
                    junk.append(node)
                    node = KINDS[op[1]](label=op[2])
            wf.add_child(node)
            register(node, op[1])
        elif k == "rm":
            shelf.insert(0, wf.remove_child(op[1]))
        elif k in ("orphan", "move"):      # the child leaves by PARENT ASSIGNMENT, not by remove_child
            if op[1] not in wf.children:
                return "noref"
            node = wf.children[op[1]]
            if k == "orphan":
                node.parent = None
            else:
                if not other:
                    other.append(Workflow("w15b", autoload=None))
                if node.label in other[0].children:
                    other[0].remove_child(node.label)
                node.parent = other[0]
            shelf.insert(0, node)
        elif k == "pull":            # run one child's upstream data tree, then the child
            if op[1] not in wf.children:
                return "noref"
            try:
                list(wf.inputs), list(wf.outputs)
            except TypeError:
                return "skip"
            if data_cyclic():
                return "skip"
            node = wf.children[op[1]]
            try:
                node() if op[2] else node.pull()
            except Exception:
                wf.failed, wf.running = False, False
                for n in wf.children.values():
                    n.failed, n.running = False, False
                raise
        elif k == "setin":
            wf.set_input_values(**{a: tval(b) for a, b in op[1]})
        elif k == "readd":           # the SAME node object comes back, possibly under another label
            node = from_shelf(op[1])
            if node is None:
                return "noref"
            wf.add_child(node, label=op[2])
            shelf[:] = [n for n in shelf if n is not node]
        elif k == "relabel":         # a current child is adopted again under another label
            if op[1] not in wf.children:
                return "noref"
            wf.add_child(wf.children[op[1]], label=op[2])
        elif k == "replace":
            if op[1] not in wf.children:
                return "noref"
            old = wf.children[op[1]]
            new = None
            if op[2] is not None:
                new = from_shelf(op[2])
                if new is None:
                    return "noref"
            kind = kind_of[id(old)]
            # outside this region replace_child enters _rebuild_data_io / copies connections (C14)
            if new is not None and kind_of[id(new)] != kind:
                return "skip"
            if any(len(ch.connections) > 0 for ch in list(old.inputs) + list(old.outputs)):
                return "skip"
            try:
                if any(len(ch.connections) > 0 for ch in list(wf.inputs) + list(wf.outputs)):
                    return "skip"
            except TypeError:
                return "skip"
            if new is None:
                new = KINDS[kind](label="spare")
                register(new, kind)
            wf.replace_child(old, new)
            shelf[:] = [old] + [n for n in shelf if n is not new]
        elif k in ("con", "dis"):
            i, o = chan(0, op[1], op[2]), chan(1, op[3], op[4])
            if i is None or o is None:
                return "noref"
            if k == "con":
                i.connect(o)
            else:
                i.disconnect(o)
        elif k == "disall":
            ch = chan(op[1], op[2], op[3])
            if ch is None:
                return "noref"
            ch.disconnect_all()
        elif k == "map":
            if op[1] == 0:
                wf.inputs_map = _dict(op[2])
            else:
                wf.outputs_map = _dict(op[2])
        elif k in ("mset", "mdel", "mupd"):      # in-place edits of the object the property hands out
            m = wf.inputs_map if op[1] == 0 else wf.outputs_map
            if k == "mset":
                m[op[2]] = op[3]
            elif k == "mdel":
                del m[op[2]]
            else:
                m.update(_dict(op[2]))
        elif k == "set":
            wf.inputs[op[1]] = tval(op[2])
        elif k == "iset":
            wf.inputs[op[1]].value = tval(op[2])
        elif k == "wcon2":
            wf.inputs[op[1]] = wf.outputs[op[2]]
        elif k == "wcon":
            o = chan(1, op[2], op[3])
            if o is None:
                return "noref"
            wf.inputs[op[1]] = o
        elif k == "run":
            try:
                kw = {a: tval(b) for a, b in op[1]}
                r = wf(**kw) if len(op) > 2 and op[2] == "call" else wf.run(**kw)
            except Exception:
                wf.failed, wf.running = False, False
                raise
            return ["ok", [[ks(a), v(b)] for a, b in r.items()]]
        else:
            raise ValueError(op)
        return "ok"

    obs = [["ok"] + look()]
    for op in case["ops"]:
        try:
            r = do(op)
        except Exception as e:
            r = type(e).__name__
        obs.append([r] + look())
    return obs


# ---- model term --------------------------------------------------------------------------------------------
def _ostr(x):
    return "None" if x is None else f"(Some {cs(x)})"


def map_coq(m):
    if m is None:
        return "None"
    return "(Some " + cl(f"({cs(k)}, {_ostr(v)})" for k, v in m) + ")"


def op_coq(op):
    k = op[0]
    D = ["DIn", "DOut"]
    if k == "add":
        return f"OAdd {cn(op[1])} {cs(op[2])}"
    if k == "rm":
        return f"ORemove {cs(op[1])}"
    if k == "con":
        return "OConnect " + " ".join(cs(x) for x in op[1:])
    if k == "dis":
        return "ODisconnect " + " ".join(cs(x) for x in op[1:])
    if k == "disall":
        return f"ODisconnectAll {D[op[1]]} {cs(op[2])} {cs(op[3])}"
    if k == "map":
        return f"OSetMap {D[op[1]]} {map_coq(op[2])}"
    if k == "set":
        return f"OAssign {cs(op[1])} {cz(encz(op[2]))}"
    if k == "wcon":
        return f"OWConnect {cs(op[1])} {cs(op[2])} {cs(op[3])}"
    if k == "run":
        return "ORun " + cl(f"({cs(a)}, {cz(encz(b))})" for a, b in op[1])
    if k == "setin":
        return "OSetInputs " + cl(f"({cs(a)}, {cz(encz(b))})" for a, b in op[1])
    if k == "iset":
        return f"OItemAssign {cs(op[1])} {cz(encz(op[2]))}"
    if k == "wcon2":
        return f"OWConnect2 {cs(op[1])} {cs(op[2])}"
    if k == "pull":
        return f"OPull {cs(op[1])} {'true' if op[2] else 'false'}"
    if k == "orphan":
        return f"OOrphan {cs(op[1])}"
    if k == "move":
        return f"OMoveAway {cs(op[1])}"
    if k == "readd":
        return f"OReadd {cs(op[1])} {_ostr(op[2])}"
    if k == "relabel":
        return f"ORelabel {cs(op[1])} {cs(op[2])}"
    if k == "replace":
        return f"OReplace {cs(op[1])} {_ostr(op[2])}"
    if k == "mset":
        return f"OMapSet {D[op[1]]} {cs(op[2])} {_ostr(op[3])}"
    if k == "mdel":
        return f"OMapDel {D[op[1]]} {cs(op[2])}"
    if k == "mupd":
        return f"OMapUpdate {D[op[1]]} " + cl(f"({cs(a)}, {_ostr(b)})" for a, b in op[2])
    raise ValueError(op)


HM = 2305843009213693951


def ohash(x):
    """WfIO.ohash on the python rendering of an observation tree"""
    if x is None:
        x = []
    if isinstance(x, bool):
        x = int(x)
    if isinstance(x, int):
        return (x * 3 + 1) & HM
    if isinstance(x, str):
        h = 5381
        for ch in x:
            h = (h * 131 + ord(ch)) & HM
        return (h * 3 + 2) & HM
    h = 7
    for e in x:
        h = (h * 1000003 + ohash(e)) & HM
    return (h * 3) & HM


def model_view(case, obs):
    return [ohash(step) for step in obs]


def model_term(case):
    return f"history_hash {map_coq(case['im'])} {map_coq(case['om'])} {cl(op_coq(o) for o in case['ops'])}"


def model_term_full(case):
    return f"history_obs {map_coq(case['im'])} {map_coq(case['om'])} {cl(op_coq(o) for o in case['ops'])}"


# ---- the property, on the implementation's observation ----------------------------------------------------
def _dup_names(m):
    names = [v for _, v in (m or []) if v is not None]
    return len(set(names)) < len(names)


def _vals(snap):
    return {cid: val for _, ins, outs in snap[0] for _, cid, _, val in ins + outs}


def failures(case, obs):
    """every step at which the property fails: [(step, signature-tag, text)]"""
    out = []
    if not isinstance(obs, list) or not obs:
        return [(0, "driver", "no observation")]
    bad_ctor = _dup_names(case["im"]) or _dup_names(case["om"])
    if len(obs[0]) == 1:
        if not bad_ctor:
            out.append((0, "bijective", f"the constructor refused one-to-one maps with {obs[0][0]}"))
        return out
    if bad_ctor:
        return [(0, "bijective", "the constructor accepted a map sending two keys to one name")]
    want_maps = [("nomap" if case["im"] is None else case["im"]), ("nomap" if case["om"] is None else case["om"])]
    prev = None
    prev_panels = None
    for step, rec in enumerate(obs):
        res, snap, pin, pout = rec
        op = case["ops"][step - 1] if step > 0 else ["ctor"]
        pre_in = None
        if prev is not None:
            e = expected_panel(prev[0], prev[1], 0)
            pre_in = None if collision(e) else {k: c for k, c, _, _ in e}
        # -- the maps: one-to-one or rejected without effect; several None are fine
        if op[0] == "map":
            d, m = op[1], op[2]
            if _dup_names(m):
                if res == "ok":
                    out.append((step, "bijective", f"a map sending two keys to one name was accepted: {m}"))
                elif snap[1 + d] != prev[1 + d]:
                    out.append((step, "bijective", "a rejected map nevertheless changed the stored map"))
            else:
                if res != "ok":
                    out.append((step, "bijective", f"a one-to-one map was refused with {res}: {m}"))
                want_maps[d] = "nomap" if m is None else m
        if op[0] in ("mset", "mdel", "mupd"):
            d = op[1]
            M = prev[1 + d]
            verdict = None                      # "refused" | "accepted" | "either"
            new = None
            if M == "nomap":
                verdict = "refused"
            else:
                cur = {k: v for k, v in M}
                clash = lambda key, v_, mp: v_ is not None and any(v == v_ and kk != key for kk, v in mp.items())
                if op[0] == "mset":
                    if clash(op[2], op[3], cur):
                        verdict = "refused"
                    else:
                        verdict, new = "accepted", dict(cur)
                        new[op[2]] = op[3]
                elif op[0] == "mdel":
                    if op[2] in cur:
                        verdict, new = "accepted", {k: v for k, v in cur.items() if k != op[2]}
                    else:
                        verdict = "refused"
                else:
                    new = dict(cur)
                    new.update({a: b for a, b in op[2]})
                    nm = [v for v in new.values() if v is not None]
                    if len(set(nm)) < len(nm):
                        verdict, new = "refused", None
                    elif any(clash(a, b, cur) for a, b in op[2]):
                        verdict = "either"       # a name still held by another key while the update is applied
                    else:
                        verdict = "accepted"
            got_map = snap[1 + d]
            unchanged = got_map == M
            applied = new is not None and got_map != "nomap" and {k: v for k, v in got_map} == new
            if verdict == "refused" and M != "nomap" and op[0] != "mdel" and res == "ok":
                out.append((step, "bijective", f"the in-place edit {op} maps a second key onto a used name and was "
                                               f"accepted: {got_map}"))
            elif verdict == "refused" and (res == "ok" or not unchanged):
                out.append((step, "maps", f"the in-place edit {op} had to be refused without effect; got {res}, {got_map}"))
            elif verdict == "accepted" and (res != "ok" or not applied):
                out.append((step, "maps", f"the in-place edit {op} keeps the map one-to-one but gave {res}, {got_map}"))
            elif verdict == "either" and not ((res == "ok" and applied) or (res != "ok" and unchanged)):
                out.append((step, "maps", f"the in-place update {op} was neither applied nor refused cleanly: {res}, {got_map}"))
            want_maps[d] = got_map
        for d in (0, 1):
            if snap[1 + d] != "nomap":
                nm = [v for _, v in snap[1 + d] if v is not None]
                if len(set(nm)) < len(nm):
                    out.append((step, "bijective", f"the stored {('inputs', 'outputs')[d]}_map sends two keys to one "
                                                   f"name: {snap[1 + d]}"))
        if snap[1] != want_maps[0] or snap[2] != want_maps[1]:
            out.append((step, "maps", f"stored maps {snap[1:]} differ from the last accepted ones {want_maps}"))
            want_maps = [snap[1], snap[2]]
        # -- the panels: exactly the characterised channels, the child's own objects
        for d, got in ((0, pin), (1, pout)):
            ent = expected_panel(snap[0], snap[1 + d], d)
            col = collision(ent)
            name = ("inputs", "outputs")[d]
            if col:
                out.append((step, f"collision-{col[0]}", f"wf.{name} cannot be a dictionary of the characterised "
                                                          f"channels, {col[1]}; the access gave {got[0]}"))
                continue
            if got[0] != "ok":
                out.append((step, "panel", f"wf.{name} raised {got[0]}"))
                continue
            if len(got) > 2 and got[2] != [c for _, c in got[1]]:
                out.append((step, "identity", f"wf.{name}[key] (item access) does not return the channels the panel "
                                              f"lists: {got[1]} vs ids by item {got[2]}"))
            want = sorted([k, c] for k, c, _, _ in ent)
            if sorted(got[1]) != want:
                out.append((step, "panel", f"wf.{name} holds {got[1]} (key, channel id); the open/exposed child "
                                           f"channels are {want}"))
        # -- assigning through the workflow assigns to the child
        if op[0] == "wcon2" and pre_in is not None:
            e_out = expected_panel(prev[0], prev[2], 1)
            if not collision(e_out):
                pre_out = {k: c for k, c, _, _ in e_out}
                if op[2] in pre_out and op[1] in pre_in:
                    tgt, src = pre_in[op[1]], pre_out[op[2]]
                    now = [cn_ for _, ins, _ in snap[0] for _, c, cn_, _ in ins if c == tgt]
                    if res != "ok" or not now or src not in now[0]:
                        out.append((step, "assign", f"wf.inputs[{op[1]!r}] = wf.outputs[{op[2]!r}] gave {res}; the child "
                                                    f"channel {tgt} is connected to {now} (expected {src})"))
                elif res == "ok":
                    out.append((step, "assign", f"wf.inputs[{op[1]!r}] = wf.outputs[{op[2]!r}] with an absent key was accepted"))
        if op[0] in ("set", "iset") and pre_in is not None:
            before, after = _vals(prev), _vals(snap)
            if op[1] in pre_in:
                tgt = pre_in[op[1]]
                changed = {c for c in after if after[c] != before.get(c)}
                if res != "ok" or after.get(tgt) != rval(op[2]) or changed - {tgt}:
                    out.append((step, "assign", f"wf.inputs[{op[1]!r}] = {op[2]} gave {res}; child channel {tgt} "
                                                f"holds {after.get(tgt)}, changed channels {sorted(changed)}"))
            elif res == "ok" or after != before:
                out.append((step, "assign", f"assignment to the absent key {op[1]!r} gave {res}"))
        if op[0] == "pull" and res not in ("noref", "skip"):
            # pulling a child leaves the workflow's IO exactly as it was
            if res != "ok":
                out.append((step, "pull", f"pulling child {op[1]!r} raised {res}"))
            elif [pin, pout] != prev_panels:
                out.append((step, "pull", f"pulling child {op[1]!r} changed the workflow IO from {prev_panels} to "
                                          f"{[pin, pout]}"))
        if op[0] == "setin" and pre_in is not None:
            before, after = _vals(prev), _vals(snap)
            unknown = [k for k, _ in op[1] if k not in pre_in]
            if unknown:
                if res == "ok" or after != before:
                    out.append((step, "assign", f"set_input_values accepted the unknown keys {unknown} ({res})"))
            else:
                tg = {pre_in[k]: rval(z) for k, z in op[1]}
                wrong = {c: after.get(c) for c, z in tg.items() if after.get(c) != z}
                changed = {c for c in after if after[c] != before.get(c)} - set(tg)
                if res != "ok" or wrong or changed:
                    out.append((step, "assign", f"set_input_values({op[1]}) gave {res}; child channels hold {wrong} "
                                                f"instead of the assigned values/types; other changes {sorted(changed)}"))
        if op[0] == "wcon" and pre_in is not None and res != "noref":
            if op[1] in pre_in:
                tgt = pre_in[op[1]]
                src = [c for lab, _, outs in snap[0] if lab == op[2] for l, c, _, _ in outs if l == op[3]]
                now = [cn_ for _, ins, _ in snap[0] for _, c, cn_, _ in ins if c == tgt]
                if res != "ok" or not src or not now or src[0] not in now[0]:
                    out.append((step, "assign", f"connecting through wf.inputs[{op[1]!r}] gave {res}; the child "
                                                f"channel {tgt} is connected to {now}"))
            elif res == "ok":
                out.append((step, "assign", f"connection through the absent key {op[1]!r} was accepted"))
        # -- run returns the dictionary of the outputs
        if op[0] == "run" and pre_in is not None:
            unknown = [k for k, _ in op[1] if k not in pre_in]
            ent = expected_panel(snap[0], snap[2], 1)
            if unknown:
                if isinstance(res, list):
                    out.append((step, "run", f"run accepted the unknown input keys {unknown}"))
            elif collision(ent) or collision(expected_panel(snap[0], snap[1], 0)):
                pass
            elif res == "CircularDataFlowError":
                pass                     # cyclic data among the children: nothing to return (C01's domain)
            elif not isinstance(res, list):
                out.append((step, "run", f"run raised {res}"))
            else:
                vals = _vals(snap)
                want = sorted([k, vals[c]] for k, c, _, _ in ent)
                if sorted(res[1]) != want:
                    out.append((step, "run", f"run returned {res[1]}; the outputs hold {want}"))
                for k, z in op[1]:
                    c = pre_in[k]
                    con = [cn_ for _, ins, _ in snap[0] for _, c2, cn_, _ in ins if c2 == c]
                    if con and not con[0] and vals.get(c) != rval(z):
                        out.append((step, "run", f"keyword {k}={z} did not reach the child channel {c} ({vals.get(c)})"))
        prev = snap
        prev_panels = [pin, pout]
    return out


_KNOWN_TAGS = {"collision-scoped": "S18-scoped-label-collision", "collision-shadow": "S33-map-name-shadows-default-key"}


def oracle(case, obs):
    fs = failures(case, obs)
    if not fs:
        return None
    for step, tag, text in fs:          # a failure outside the recorded causes is reported first
        if tag not in _KNOWN_TAGS:
            return f"{tag}: step {step} {text}"
    step, tag, text = fs[0]
    return f"{tag}: step {step} {text}"


def known(case, obs, verdict):
    tag = verdict.split(":")[0]
    fid = _KNOWN_TAGS.get(tag)
    if fid is None:
        return None
    # the cause predicate, re-evaluated on the implementation's own structure snapshots
    for rec in obs:
        if len(rec) != 4:
            continue
        for d in (0, 1):
            col = collision(expected_panel(rec[1][0], rec[1][1 + d], d))
            if col and "collision-" + col[0] == tag:
                return fid
    return None


def nontrivial(case, obs):
    if not isinstance(obs, list) or len(obs) < 2 or len(obs[0]) != 4:
        return False
    two = any(len(r[1][0]) >= 2 for r in obs if len(r) == 4)
    edited = any(len(r) == 4 and (r[1][1] != "nomap" or r[1][2] != "nomap" or
                                  any(c[2] for k in r[1][0] for c in k[1])) for r in obs)
    return two and edited


def key(case):
    return [case["im"], case["om"], case["ops"]]


def shrink_candidates(case):
    ops = case["ops"]
    for i in range(len(ops) - 1, -1, -1):
        yield {"im": case["im"], "om": case["om"], "ops": ops[:i] + ops[i + 1:]}
    if case["im"] is not None:
        yield {"im": None, "om": case["om"], "ops": ops}
    if case["om"] is not None:
        yield {"im": case["im"], "om": None, "ops": ops}
    for i, o in enumerate(ops):
        if o[0] == "map" and o[2]:
            for j in range(len(o[2])):
                yield {"im": case["im"], "om": case["om"],
                       "ops": ops[:i] + [["map", o[1], o[2][:j] + o[2][j + 1:]]] + ops[i + 1:]}
        if o[0] == "run" and o[1]:
            yield {"im": case["im"], "om": case["om"], "ops": ops[:i] + [["run", []]] + ops[i + 1:]}


def distribution(results):
    d = {"ops": {}, "results": {}, "panel_unavailable_steps": 0, "steps": 0, "max_children": 0,
         "maps_set": 0, "maps_rejected": 0, "runs_ok": 0, "cases_with_known_collision": 0}
    for c, enc, v, o in results:
        if not isinstance(o, list):
            continue
        for op, rec in zip(c["ops"], o[1:]):
            d["ops"][op[0]] = d["ops"].get(op[0], 0) + 1
            r = rec[0] if isinstance(rec[0], str) else "ok"
            d["results"][r] = d["results"].get(r, 0) + 1
            d["steps"] += 1
            if len(rec) == 4:
                d["max_children"] = max(d["max_children"], len(rec[1][0]))
                d["panel_unavailable_steps"] += int(rec[2][0] != "ok" or rec[3][0] != "ok")
            if op[0] == "map":
                d["maps_set" if rec[0] == "ok" else "maps_rejected"] += 1
            if op[0] == "run" and isinstance(rec[0], list):
                d["runs_ok"] += 1
        if v and v.split(":")[0] in _KNOWN_TAGS:
            d["cases_with_known_collision"] += 1
    return d
