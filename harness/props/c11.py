"""C11 -- pulling a node runs exactly its upstream closure and leaves the graph as it was.

A case is a STACK of sibling scopes, the target's scope first (level 0) and every further level
the scope in which the composite enclosing the previous level lives (parentless nodes, the
children of a Workflow, the children of a -- possibly nested -- Macro).  Every level has data
connections (applied in order on the real channels), hand-made signal connections (ran or failed
-> run or accumulate_and_run, applied in order), starting nodes, executor flags, nodes whose
function raises, nodes already failed.  run_impl builds the REAL objects, snapshots every
level, calls `target.pull(run_parent_trees_too=...)` (`target()` is exactly that with True)
and snapshots again; the call log is written by the node functions themselves.
model_term evaluates coq/theories/Pull.v on the same stack.  The oracle computes the upstream
closure with its own plain-Python graph search and states the property on the implementation's
observation only (never looking at the model).
"""
from __future__ import annotations

import json

from harness import lib
from harness.lib import cb, cl, cn, cs

from pyiron_workflow.nodes.function import as_function_node
from pyiron_workflow.nodes.macro import as_macro_node

PROP = "C11"
IMPORTS = "Base Pull"
FUEL = 60
SHARD = 120
RULE = ("stacks of 1-3 sibling scopes (parentless nodes / Workflow children / children of nested macros; 1-6 nodes per "
        "scope), forward data connections over three input channels (several connections per channel), optional "
        "cyclic data (self edge, back edge -- also outside the target's reach), a node owned by ANOTHER workflow feeding the "
        "closure (data connection crossing composites: refused, not siblings) or sitting outside it, hand-made ran->run, "
        "ran->accumulate_and_run and failed->run/accumulate_and_run connections in connection order, starting nodes, automate flag, executor flags, "
        "one failing node (every node of the would-be executed set in the thorough tier), already-failed nodes / "
        "parents, a closure node still flagged `running` without executor; HISTORIES: pull / re-wire the upstream data "
        "(disconnect a provider, connect a new one; providers uncached) / pull again on the same objects; the same pull 2-3 times with unchanged inputs and uncached observers wired to the target "
        "and to the enclosing macros (by hand, or by automation after a run of the Workflow root); "
        "WARM histories: the target is pulled / the Workflow root run first, THEN an executor is put on a closure node "
        "and/or an upstream input changes, then the observed pull (refused as for cold nodes, nothing left running); "
        "parents, permuted labels, a Workflow inputs_map exposing connected child inputs under new names; EVERY node of the target scope as target, with and without parent scopes. "
        "Non-trivial = the closure has at least two nodes or the pull is refused; distinct = distinct case JSON")
TRUSTED = ["a node flagged `running` (no executor) enters the model as a node that is not ready (its failed flag); the "
           "class of its refusal (RuntimeError at the input lock / ReadinessError at the gate) is not distinguished; "
           "inside a composite such a node makes the parent resume it by label: oracle only",
           "histories (repeated pulls, pulls after a root run, warm-then-executor, pull / re-wire / pull) are compared "
           "with the model on their first pull only; the later pulls are judged by the oracle",
           "the iteration order of Python sets (closure) is not predicted: connection lists are compared as sorted "
           "sets, except in corpus cases where the order is independent of it",
           "temporary labels label+str(id) sort like the original labels (sibling labels of equal length, distinct)"]
ASSUMPTIONS = ["the Coq model covers fresh nodes and the FIRST pull of a case (no cache hit; every node triggered at most "
               "once); repeated pulls of the same target with unchanged inputs (cache hits of the target, its "
               "upstream and the macros it is pulled through) and pulls after a run of the Workflow root are "
               "checked by the oracle only: nothing outside the closure may be called on ANY pull of the history "
               "(uncached observer nodes hang off the pulled node and off every enclosing macro), restoration, "
               "outcome and value hold for every pull",
               "siblings of enclosing composites are plain function nodes; the target is a function node",
               "data values are not modelled in Coq (the oracle checks the returned value against a plain-Python "
               "evaluation of the closure)"]

LOG: list = []
BADTAGS: set = set()
BUDGET = 200


class BudgetError(BaseException):
    """not an Exception on purpose: the composite's signal loop swallows Exceptions and would spin forever"""


def _alarm(signum, frame):
    raise BudgetError("time budget exceeded")


@as_function_node("out")
def F11(a=0, b=0, c=0, z=0, tag=""):
    LOG.append(tag)
    if len(LOG) > BUDGET:
        raise BudgetError("call budget exceeded")
    if tag in BADTAGS:
        raise RuntimeError("node function fails: " + tag)
    out = (a + 2 * b + 3 * c + 5 * z + 7) % 1000003
    return out


_BUILD = {"case": None, "level": None, "scopes": None, "others": {}}


@as_macro_node("out")
def Mac11(self, x=0):
    lv = _BUILD["level"]
    nodes = _make_nodes(lv, self, x)
    return nodes[-1]


CH = ["a", "b", "c"]


def _make_nodes(lv, parent, x):
    """create the nodes of level lv under `parent` (None = parentless); no connections yet"""
    case = _BUILD["case"]
    L = case["levels"][lv]
    nodes = []
    for i in range(L["n"]):
        lab = L["labels"][i]
        if lv > 0 and L["comp"] == i:
            _BUILD["level"] = lv - 1
            nd = Mac11(label=lab, parent=parent)
            _BUILD["level"] = lv
        else:
            kw = {"tag": f"{lv}.{i}", "label": lab}
            if i == 0 and x is not None:
                kw["z"] = x
            nd = F11(**kw)
            if i in L.get("foreign", []):
                # owned by ANOTHER workflow: a data connection from it crosses composites
                if lv not in _BUILD["others"]:
                    from pyiron_workflow import Workflow
                    _BUILD["others"][lv] = Workflow(f"other{lv}")
                _BUILD["others"][lv].add_child(nd, label=lab)
            elif parent is not None:
                parent.add_child(nd, label=lab)
        nodes.append(nd)
    _BUILD["scopes"][lv] = (parent, nodes)
    return nodes


def _is_failed(sg):
    return len(sg) > 3 and sg[3] == "failed"


def _sig_in(node, s):
    return node.signals.input.run if s == "run" else node.signals.input.accumulate_and_run


def build(case):
    from pyiron_workflow import Workflow
    levels = case["levels"]
    top = len(levels) - 1
    _BUILD.update(case=case, level=top, scopes={}, others={})
    T = levels[top]
    if T["par"] == "wf":
        wf = Workflow("wf")
        _make_nodes(top, wf, None)
    else:
        _make_nodes(top, None, None)
    scopes = [_BUILD["scopes"][i] for i in range(len(levels))]
    for lv, L in enumerate(levels):
        parent, nodes = scopes[lv]
        # wipe whatever execution wiring the construction made, then apply the case's
        for nd in nodes:
            nd.signals.disconnect()
            nd.signals.input.accumulate_and_run.reset()
        if parent is not None:
            parent.starting_nodes = []
        for u, v, ch in L["data"]:
            tgt = nodes[v]
            inp = tgt.inputs.x if (lv > 0 and L["comp"] == v) else tgt.inputs[CH[ch]]
            inp.connect(nodes[u].outputs.out)
        for sg in L["sig"]:
            e, r, s = sg[0], sg[1], sg[2]
            out = nodes[e].signals.output.failed if _is_failed(sg) else nodes[e].signals.output.ran
            _sig_in(nodes[r], s).connect(out)
        if L["par"] == "wf" and L.get("expose"):
            # the workflow exposes CONNECTED child inputs under new names: its IO panel then holds channels that
            # have connections -- which are not upstream of the workflow
            parent.inputs_map = {
                f"{L['labels'][v]}__{'x' if (lv > 0 and L['comp'] == v) else CH[ch]}": f"inp{j}"
                for j, (v, ch) in enumerate(L["expose"])}
        if parent is not None:
            parent.starting_nodes = [nodes[i] for i in L["start"]]
            if L["par"] == "wf":
                parent.automate_execution = bool(L["automate"])
                if L["pfailed"]:
                    parent.failed = True
        if not case.get("warm"):        # a warm history gets its executors AFTER the warm-up (apply_late)
            _set_executors(L, nodes)
        for i in L["failed"]:
            nodes[i].failed = True
        for i in L.get("running", []):
            nodes[i].running = True         # left over from an interrupted run / re-loaded mid-run: no executor
        for i in L.get("nocache", []):
            nodes[i].use_cache = False      # an observer: really executes whenever it is triggered
    return scopes


def _set_executors(L, nodes):
    from concurrent.futures import ThreadPoolExecutor
    for i in L["exe"]:
        nodes[i].executor = (ThreadPoolExecutor, (), {})


TOUCH = 11


def apply_late(case, scopes):
    """what a warm history does between the warm-up and the observed pull: executors, changed inputs"""
    for lv, L in enumerate(case["levels"]):
        _, nodes = scopes[lv]
        _set_executors(L, nodes)
        for i in L.get("touch", []):
            nodes[i].inputs.z.value = TOUCH


def _drain(scopes):
    """never let a submitted run leak into the next case (only broken trees ever submit one)"""
    for _, nodes in scopes:
        for nd in nodes:
            f = nd.future
            if f is not None and not f.done():
                try:
                    f.result(timeout=5)
                except BaseException:
                    pass


def snapshot(case, scopes, ordered):
    """per level: [[label, run, acc, ran, failed, received, failed?] per node, starting, automate, parent failed];
    an emitter is numbered 2*node (its `ran`) or 2*node+1 (its `failed`)"""
    out = []
    for lv, L in enumerate(case["levels"]):
        parent, nodes = scopes[lv]
        ident = {id(n): i for i, n in enumerate(nodes)}
        lab2i = {}
        for i, n in enumerate(nodes):
            lab2i.setdefault(n.label, i)
            lab2i.setdefault(n.label + str(id(n)), i)      # the temporary label of a pull

        def em(c):
            i = ident.get(id(c.owner), -1)
            return -1 if i < 0 else 2 * i + (1 if c.label == "failed" else 0)

        def tg(c):
            return [ident.get(id(c.owner), -1), 0 if c.label == "run" else 1 if c.label == "accumulate_and_run" else 2]

        def rc(k):
            lab, _, ch = str(k).rpartition("__")
            i = lab2i.get(lab, -1)
            return -1 if i < 0 else 2 * i + (1 if ch == "failed" else 0)
        rows = []
        for n in nodes:
            run = [em(c) for c in n.signals.input.run.connections]
            acc = [em(c) for c in n.signals.input.accumulate_and_run.connections]
            ran = [tg(c) for c in n.signals.output.ran.connections]
            fld = [tg(c) for c in n.signals.output.failed.connections]
            rec = sorted(rc(k) for k in n.signals.input.accumulate_and_run.received_signals)
            if not ordered:
                run, acc, ran, fld = sorted(run), sorted(acc), sorted(ran), sorted(fld)
            rows.append([n.label, run, acc, ran, fld, rec, bool(n.failed)])
        if parent is not None:
            start = [ident.get(id(s), -1) for s in parent.starting_nodes]
        else:
            start = list(L["start"])
        if L["par"] == "wf":
            auto, pf = bool(parent.automate_execution), bool(parent.failed)
        else:
            auto, pf = bool(L["automate"]), bool(L["pfailed"])
        keys = []       # what the owners list: [owner, key, label of the child under that key]
        for who, comp in (("parent", parent), ("other", _BUILD["others"].get(lv))):
            if comp is not None:
                keys += [[who, str(k), str(ch.label)] for k, ch in comp.children.items()]
        running = [bool(n.running) for n in nodes] + [bool(parent.running) if parent is not None else False]
        out.append([rows, start, auto, pf, sorted(keys), running])
    return out


_HANGS = [0]


def run_impl(case):
    if _HANGS[0] >= 6:      # the library spins (only ever seen on broken trees): do not spend seconds on every case
        return ["BudgetError", [], [], [], "skipped after repeated hangs"]
    obs = _run_once(case, 3)
    if _budget(obs) and len(obs[1]) <= BUDGET:
        obs = _run_once(case, 30)       # a loaded machine is not a hang: once more with a generous time budget
    if _budget(obs):
        _HANGS[0] += 1
    return obs


def _budget(obs):
    return obs[0] == "BudgetError" or (len(obs) == 6 and any(o[0] == "BudgetError" for o in obs[5]))


def _run_once(case, seconds):
    """[res, log, after, before, ret] of the first pull; a history (case["repeat"] > 1: the same pull again, inputs
    unchanged) appends the list of the same five observations for every further pull.  case["prerun"]: the
    (Workflow) root is run once before the first pull, so that everything is up to date and automation has wired
    the execution signals."""
    global BADTAGS
    import signal
    LOG.clear()
    BADTAGS = {f"{lv}.{i}" for lv, L in enumerate(case["levels"]) for i in L["bad"]}
    scopes = build(case)
    ordered = bool(case.get("ordered"))
    sort_start = bool(case.get("prerun")) or case.get("warm") == "root"
    target = scopes[0][1][case["target"]]
    pulls = []
    old_handler = signal.signal(signal.SIGALRM, _alarm)
    try:
        if case.get("prerun") or case.get("warm") == "root":
            signal.alarm(seconds)
            try:
                scopes[-1][0].run()
            finally:
                signal.alarm(0)
        elif case.get("warm") == "pull":
            signal.alarm(seconds)
            try:
                target.pull(run_parent_trees_too=bool(case["parents"]))
            finally:
                signal.alarm(0)
        if case.get("warm"):
            apply_late(case, scopes)
        for _ in range(max(1, int(case.get("repeat", 1)))):
            LOG.clear()
            before = _snap(case, scopes, ordered, sort_start)
            ret = None
            signal.alarm(seconds)
            try:
                if case["parents"] and case.get("call", False):
                    r = target()
                else:
                    r = target.pull(run_parent_trees_too=bool(case["parents"]))
                res = "ok"
                ret = r if isinstance(r, int) else repr(r)[:40]
            except BaseException as e:
                if isinstance(e, (KeyboardInterrupt, SystemExit)):
                    raise
                res = type(e).__name__
            finally:
                signal.alarm(0)
            log = [[int(t.split(".")[0]), int(t.split(".")[1])] for t in LOG]
            after = _snap(case, scopes, ordered, sort_start)
            pulls.append([res, log, after, before, ret])
            _drain(scopes)
            if len(pulls) == 1 and case.get("rewire"):
                _, nodes0 = scopes[0]
                for u, v, ch in case["rewire"].get("drop", []):
                    nodes0[v].inputs[CH[ch]].disconnect(nodes0[u].outputs.out)
                for u, v, ch in case["rewire"].get("add", []):
                    nodes0[v].inputs[CH[ch]].connect(nodes0[u].outputs.out)
            if res == "BudgetError":
                break
    except BudgetError:
        pulls.append(["BudgetError", [], [], [], None])
    finally:
        signal.alarm(0)
        signal.signal(signal.SIGALRM, old_handler)
        BADTAGS = set()
    return pulls[0] + ([pulls[1:]] if len(pulls) > 1 or case.get("repeat", 1) > 1 else [])


def _snap(case, scopes, ordered, sort_start):
    sn = snapshot(case, scopes, ordered)
    if sort_start:
        for lvl in sn:
            lvl[1] = sorted(lvl[1])
    return sn


def model_view(case, obs):
    if not (isinstance(obs, list) and len(obs) in (5, 6)):
        return obs
    after = []
    for L, lvl in zip(case["levels"], obs[2]):
        rows = [r[:6] + [bool(r[6]) or (i in L.get("running", []))] for i, r in enumerate(lvl[0])]
        after.append([rows] + lvl[1:4])      # children keys and running flags are oracle-only; the model carries a
    res = obs[0]                             # node that is flagged running as "not ready", like a failed one
    if res == "RuntimeError" and any(L.get("running") for L in case["levels"]) \
            and not any(L["bad"] for L in case["levels"]):
        res = "ReadinessError"      # it is refused at its input lock when it has data to fetch, else at the gate
    return [res, obs[1], after]


# ---- model term --------------------------------------------------------------------------------
def _lists_after_ops(L):
    n = L["n"]
    run = [[] for _ in range(n)]
    acc = [[] for _ in range(n)]
    out = [[] for _ in range(2 * n)]          # by emitter: 2i = ran of i, 2i+1 = failed of i
    for sg in L["sig"]:
        e, r, s = sg[0], sg[1], sg[2]
        code = 2 * e + (1 if _is_failed(sg) else 0)
        lst = run[r] if s == "run" else acc[r]
        if code in lst:
            continue
        lst.insert(0, code)
        out[code].insert(0, (r, s))
    ups_ch = [[[] for _ in CH] for _ in range(n)]
    for u, v, ch in L["data"]:
        c = 0 if ("comp" in L and L.get("comp") == v) else ch
        if u not in ups_ch[v][c]:
            ups_ch[v][c].insert(0, u)
    ups = [[u for chl in ups_ch[v] for u in chl] for v in range(n)]
    return run, acc, out, ups


def _natl(l):
    return cl(cn(x) for x in l)


def scope_term(L):
    run, acc, out, ups = _lists_after_ops(L)
    n = L["n"]
    flags = lambda key: cl(cb(i in L[key] or (key == "failed" and i in L.get("running", []))) for i in range(n))
    par = {"none": "PNone", "wf": "PWf", "macro": "PMacro"}[L["par"]]
    return ("(mkScope (tbl EmptyString " + cl(cs(x) for x in L["labels"]) + ") "
            "(tbl [] " + cl(_natl(x) for x in ups) + ") "
            "(tbl [] " + cl(_natl(x) for x in run) + ") "
            "(tbl [] " + cl(_natl(x) for x in acc) + ") "
            "(tbl [] " + cl(cl(f"({cn(r)}, {'IRun' if s == 'run' else 'IAcc'})" for r, s in x) for x in out) + ") "
            "(tbl [] []) "
            f"(tbl false {flags('exe')}) (tbl false {flags('bad')}) (tbl false {flags('failed')}) "
            f"{par} {_natl(L['start'])} {cb(L['automate'])} {cb(L['pfailed'])} "
            f"(tbl 0%nat {_natl(1 if i in L.get('foreign', []) else 0 for i in range(n))}))")


def modelled(case):
    for lv, L in enumerate(case["levels"]):
        if L.get("running") and L["par"] != "none":
            return False        # a composite with a child flagged running resumes THAT child (by label): oracle only
        if len(set(L["labels"])) != L["n"]:
            return False        # equal labels: the order inside a layer follows id(), not predicted
    return True


def model_term(case):
    if not modelled(case) or case.get("prerun") or case.get("warm"):
        return None         # a history after a root run starts from cached nodes: oracle only
    # of a history (repeat > 1) the model covers the FIRST pull; the later ones (cache hits) are oracle only
    levels = case["levels"]
    st = cl(f"({scope_term(L)}, {cn(case['target'] if lv == 0 else L['comp'])})" for lv, L in enumerate(levels))
    sizes = _natl(L["n"] for L in levels)
    return f"obs_pull {cb(bool(case.get('ordered')))} {sizes} (pull {cn(FUEL)} {cb(case['parents'])} {st})"


# ---- oracle (plain Python on the case's graph; independent of the model) ----------------------
def _ups_of(L, v):
    return [u for (u, w, ch) in L["data"] if w == v]


def _closure(L, k):
    """None when a data cycle is reachable from k"""
    seen, order = set(), []
    onpath = set()

    def go(v):
        if v in onpath:
            return False
        if v in seen:
            return True
        onpath.add(v)
        for u in _ups_of(L, v):
            if not go(u):
                return False
        onpath.discard(v)
        seen.add(v)
        return True
    return seen if go(k) else None


def _head(case, lv):
    return case["target"] if lv == 0 else case["levels"][lv]["comp"]


def pulled_levels(case):
    """levels whose data tree the pull runs, top-down"""
    lv = [0]
    if case["parents"]:
        i = 0
        while case["levels"][i]["par"] == "macro" and i + 1 < len(case["levels"]):
            i += 1
            lv.append(i)
    return list(reversed(lv))


def _parent_failed(case, lv):
    L = case["levels"][lv]
    if L["par"] == "wf":
        return bool(L["pfailed"])
    if L["par"] == "macro" and lv + 1 < len(case["levels"]):
        U = case["levels"][lv + 1]
        return U["comp"] in U["failed"]
    return False


def expectation(case):
    """what the PROPERTY lets the pull execute"""
    allowed, refusal, must_fail, complete = [], None, False, True
    for lv in pulled_levels(case):
        L = case["levels"][lv]
        k = _head(case, lv)
        D = _closure(L, k)
        if D is None:
            refusal = "CircularDataFlowError"
            break
        if any(v in L["exe"] for v in D):
            refusal = "ValueError"
            break
        if any(v in L.get("foreign", []) for v in D):
            refusal = "ValueError"        # "must all be siblings": a data connection crosses composites
            break
        others = sorted(D - {k})
        if others:
            if L["par"] != "none" and _parent_failed(case, lv):
                must_fail, complete = True, False
                break
            allowed += [(lv, v) for v in others]
            if any(v in L["bad"] or v in L["failed"] or v in L.get("running", []) for v in others):
                must_fail, complete = True, False
                break
    else:
        L0 = case["levels"][0]
        t = case["target"]
        if t in L0["failed"] or t in L0.get("running", []):
            must_fail, complete = True, False
        else:
            allowed.append((0, t))
            if t in L0["bad"]:
                must_fail = True
    return {"allowed": allowed, "refusal": refusal, "must_fail": must_fail, "complete": complete}


def reference_value(case, prev=None, chan=None):
    """plain-Python value of the target when everything the property wants has run.  [prev]: what the input
    channels held before a re-wiring (a channel left without connection keeps what it last fetched); [chan]: filled
    with what every visited input channel fetches"""
    pulled = (set(range(len(case["levels"]))) if (case.get("prerun") or case.get("warm") == "root")
              else set(pulled_levels(case)))
    memo = {}

    def first(L, lv, v, ch):
        conns = []
        for (u, w, c) in L["data"]:
            if w == v and c == ch and u not in conns:
                conns.insert(0, u)
        return conns

    def val(lv, v):
        if (lv, v) in memo:
            return memo[(lv, v)]
        L = case["levels"][lv]
        args = []
        for ch in range(3):
            conns = first(L, lv, v, ch)
            args.append(val(lv, conns[0]) if conns else (prev or {}).get(f"{lv}.{v}.{ch}", 0))
            if chan is not None:
                chan[f"{lv}.{v}.{ch}"] = args[-1]
        z = TOUCH if v in L.get("touch", []) else 0
        if v == 0 and L["par"] == "macro" and lv + 1 < len(case["levels"]) and (lv + 1) in pulled:
            U = case["levels"][lv + 1]
            conns = []
            for (u, w, c) in U["data"]:
                if w == U["comp"] and u not in conns:
                    conns.insert(0, u)
            if conns:
                z = val(lv + 1, conns[0])
        r = (args[0] + 2 * args[1] + 3 * args[2] + 5 * z + 7) % 1000003
        memo[(lv, v)] = r
        return r
    if chan is not None:
        # every node of the target's closure has run and fetched, also those that only feed an input through a
        # connection that is not the first one of that input
        for v in sorted(_closure(case["levels"][0], case["target"]) or []):
            val(0, v)
    return val(0, case["target"])


def _restored(case, before, after):
    for lv, (b, a) in enumerate(zip(before, after)):
        for i, (rb, ra) in enumerate(zip(b[0], a[0])):
            if rb[0] != ra[0]:
                return f"label-not-restored: level {lv} node {i}: {rb[0]!r} -> {ra[0]!r}"
            for j, name in ((1, "run"), (2, "accumulate_and_run"), (3, "ran"), (4, "failed")):
                sb = sorted(map(json.dumps, rb[j]))
                sa = sorted(map(json.dumps, ra[j]))
                if sb != sa:
                    return (f"signals-not-restored: level {lv} node {i} {name} connections "
                            f"{rb[j]} before, {ra[j]} after")
        if b[1] != a[1]:
            return f"starting-nodes-not-restored: level {lv}: {b[1]} before, {a[1]} after"
        if b[4] != a[4]:
            return f"children-keys-changed: level {lv}: {b[4]} before, {a[4]} after"
        if a[5] != b[5]:
            return (f"left-running: level {lv}: running flags (nodes, then the parent) {b[5]} before, "
                    f"{a[5]} after the pull")
        for who, key, lab in a[4]:
            if key != lab:
                return (f"label-not-restored: level {lv}: the {who} composite lists a child under {key!r} "
                        f"whose label is {lab!r}")
    return None


def rewired(case):
    """the case as it is after the first pull of a history with a `rewire` step (level 0 data connections)"""
    rw = case.get("rewire")
    if not rw:
        return case, None
    c2 = json.loads(json.dumps(case))
    L0 = c2["levels"][0]
    drop = [list(x) for x in rw.get("drop", [])]
    L0["data"] = [e for e in L0["data"] if list(e) not in drop] + [list(x) for x in rw.get("add", [])]
    prev = {}
    reference_value(case, chan=prev)      # what every input channel of the old closure last fetched
    return c2, prev


def oracle(case, obs):
    if not (isinstance(obs, list) and len(obs) in (5, 6)):
        return f"driver: unexpected observation {obs!r}"[:300]
    v = _oracle_pull(case, obs[:5], first=not (case.get("prerun") or case.get("warm")), which=1)
    if v:
        return v
    case2, prev = rewired(case)
    for n, o in enumerate(obs[5] if len(obs) == 6 else []):
        v = _oracle_pull(case2, o, first=False, which=n + 2, prev=prev)
        if v:
            return v
    return None


def _oracle_pull(case, obs, first, which, prev=None):
    """the property on ONE pull of the history; on a later pull (or after a root run) up-to-date nodes need not be
    called again, everything else -- nothing outside the closure, order, restoration, outcome, value -- holds
    for every pull"""
    res, log, after, before, ret = obs
    tag = "" if which == 1 else (f" (pull #{which} of the same target, after re-wiring its upstream data)"
                                  if prev is not None else f" (pull #{which} of the same target, inputs unchanged)")
    if res == "BudgetError":
        return "hang: the pull did not finish within its call/time budget" + tag
    ex = expectation(case)
    allowed = set(ex["allowed"])
    entries = [tuple(e) for e in log]
    extra = [e for e in entries if e not in allowed]
    if extra:
        return (f"ran-outside-closure: {extra} executed, the upstream closure is {sorted(allowed)}; "
                f"log {entries}" + tag)
    if len(set(entries)) != len(entries):
        return f"ran-twice: log {entries}" + tag
    pos = {e: i for i, e in enumerate(entries)}
    for lv, L in enumerate(case["levels"]):
        for (u, v, ch) in L["data"]:
            if (lv, v) in pos and (lv, u) in pos and pos[(lv, u)] > pos[(lv, v)]:
                return f"dependency-order: level {lv}: {v} ran before its upstream {u}; log {entries}" + tag
            if first and (lv, v) in pos and (lv, u) not in pos:
                return f"dependency-order: level {lv}: {v} ran without its upstream {u}; log {entries}"
            if (lv, v) in pos and (u in L["bad"] or u in L["failed"] or u in L.get("running", [])):
                return (f"ran-after-failed-upstream: level {lv}: {v} ran although its upstream {u} failed; "
                        f"log {entries}" + tag)
    for a, b in zip(entries, entries[1:]):
        if a[0] < b[0]:
            return (f"dependency-order: an inner scope ran before its enclosing scope's upstream nodes; "
                    f"log {entries}" + tag)
    r = _restored(case, before, after)
    if r:
        return r + tag
    if ex["refusal"]:
        if res != ex["refusal"]:
            return f"refusal: expected {ex['refusal']}, got {res}" + tag
        return None
    if ex["must_fail"]:
        if res == "ok":
            return "failure-swallowed: a node of the closure fails but the pull returned normally" + tag
        return None
    if res != "ok":
        return f"unexpected-error: {res} although nothing in the closure fails; log {entries}" + tag
    if first:
        missing = sorted(allowed - set(entries))
        if missing:
            return f"closure-not-run: {missing} not executed; log {entries}"
        if entries[-1] != (0, case["target"]):
            return f"target-not-last: log {entries}"
    ref = reference_value(case, prev=prev)
    if ret != ref:
        return f"wrong-value: returned {ret!r}, plain evaluation of the closure gives {ref}" + tag
    return None


def _sig_desc(L, srcs):
    """nodes that signal connections (of either output signal) can reach from the nodes `srcs`"""
    seen, todo = set(srcs), list(srcs)
    while todo:
        e = todo.pop()
        for sg in L["sig"]:
            if sg[0] == e and sg[1] not in seen:
                seen.add(sg[1])
                todo.append(sg[1])
    return seen


def failed_handler_cause(case):
    """a node of the upstream closure whose function raises during the pull has something connected to its
    `failed` signal -> per level, the nodes those connections can push"""
    out = {}
    for lv in pulled_levels(case):
        L = case["levels"][lv]
        k = _head(case, lv)
        D = _closure(L, k)
        if D is None:
            break
        failing = [v for v in D if v != k and v in L["bad"]]
        handlers = {sg[1] for sg in L["sig"] if _is_failed(sg) and sg[0] in failing and sg[1] not in D}
        if handlers:
            out[lv] = _sig_desc(L, handlers)
    return out


def known(case, obs, verdict):
    if not verdict.startswith("ran-outside-closure"):
        return None
    cause = failed_handler_cause(case)
    if not cause:
        return None
    ex = expectation(case)
    allowed = set(ex["allowed"])
    extra = [tuple(e) for e in obs[1] if tuple(e) not in allowed]
    if ex["must_fail"] and all(lv in cause and v in cause[lv] for (lv, v) in extra):
        return "C11-failed-handler-runs"
    return None


def nontrivial(case, obs):
    ex = expectation(case)
    return len(ex["allowed"]) >= 2 or ex["refusal"] is not None


def key(case):
    return case


# ---- generator -------------------------------------------------------------------------------
def gen_level(rng, lv, par, is_top, n, comp):
    labels = [f"{'nmk'[lv]}{i}" for i in range(n)]
    rng.shuffle(labels)
    data = []
    dens = rng.choice([0.25, 0.45, 0.7])
    for v in range(n):
        for u in range(v):
            if rng.random() < dens:
                data.append([u, v, rng.randrange(3)])
                if rng.random() < 0.1:
                    data.append([u, v, rng.randrange(3)])
    rng.shuffle(data)
    sig = []
    ruled = lv > 0 or rng.random() < 0.5
    if not ruled:
        # level 0, ran -> run / accumulate_and_run in any direction (cycles too): nothing of it may fire
        m = rng.choice([0, 0, 1, 2, 3, 5])
        for _ in range(m):
            e, r = rng.randrange(n), rng.randrange(n)
            if e == r:
                continue
            if e > r and rng.random() < 0.7:
                e, r = r, e
            sig.append([e, r, rng.choice(["run", "run", "acc"])])
    else:
        # forward only, and every receiver has either one any-of connection or only all-of connections, so that
        # nothing is triggered twice if something does get pushed (a `failed` handler); some connections hang
        # on the emitter's `failed` signal instead of its `ran`
        c0 = comp if comp is not None else n
        pf = rng.choice([0.0, 0.25, 0.5])

        def kind():
            return ["failed"] if rng.random() < pf else []
        for r in range(1, n):
            mode = rng.choice(["none", "none", "run", "acc", "acc"])
            if r > c0 and rng.random() < 0.5:
                mode = rng.choice(["run", "acc"])
            if mode == "run":
                e = rng.randrange(r) if not (r > c0 and rng.random() < 0.6) else c0
                sig.append([e, r, "run"] + kind())
            elif mode == "acc":
                es = rng.sample(range(r), rng.randint(1, min(3, r)))
                if r > c0 and rng.random() < 0.6 and c0 not in es:
                    es[0] = c0
                for e in es:
                    sig.append([e, r, "acc"] + kind())
        rng.shuffle(sig)
    start = rng.sample(range(n), rng.choice([0, 0, 1, 2]) if n >= 2 else rng.choice([0, 1])) if par != "none" else []
    expose = []
    if par == "wf" and data and rng.random() < 0.45:
        seen = set()
        for u, v, ch in rng.sample(data, min(len(data), rng.choice([1, 2, 2]))):
            key = (v, 0 if v == comp else ch)
            if key not in seen:
                seen.add(key)
                expose.append([v, ch])
    return {"expose": expose, "par": par, "n": n, "labels": labels, "data": data, "comp": comp, "sig": sig, "start": start,
            "exe": [], "bad": [], "failed": [], "pfailed": False, "automate": rng.random() < 0.8}


def gen_graph(rng, big):
    depth = rng.choice([1, 1, 1, 2, 2, 3])
    levels = []
    for lv in range(depth):
        is_top = lv == depth - 1
        par = rng.choice(["none", "wf"]) if is_top else "macro"
        n = rng.randint(1 if lv == 0 else 2, (7 if big else 6) if lv == 0 else 5)
        comp = rng.randrange(1, n) if lv > 0 else None
        levels.append(gen_level(rng, lv, par, is_top, n, comp))
    return levels


def _rule_ok(L):
    """forward-only signals, every receiver with one any-of connection or only all-of connections"""
    for r in range(L["n"]):
        inc = [sg for sg in L["sig"] if sg[1] == r]
        if any(sg[0] >= r for sg in inc):
            return False
        runs = [sg for sg in inc if sg[2] == "run"]
        if len(runs) > 1 or (runs and len(inc) > 1):
            return False
    return True


def variants(rng, levels, target, parents, thorough):
    """the base case + decorated copies: cycles, executor, failing nodes, failed nodes, equal labels"""
    def cp(**kw):
        c = {"levels": json.loads(json.dumps(levels)), "target": target, "parents": parents}
        c.update(kw)
        return c
    base = cp()
    if parents and rng.random() < 0.3:
        base["call"] = True
    out = [base]
    ex = expectation(base)
    runset = list(ex["allowed"])
    # one failing node: every node of the executed set (thorough) / one or two of them (quick)
    picks = runset if thorough else rng.sample(runset, min(len(runset), rng.choice([1, 1, 2])))
    for (lv, v) in picks:
        c = cp()
        c["levels"][lv]["bad"] = [v]
        out.append(c)
    # a failing upstream node with a hand-wired `failed` handler outside the closure (known finding)
    if runset and rng.random() < 0.35:
        lv, v = rng.choice(runset)
        L0 = levels[lv]
        if (lv, v) != (0, target) and _rule_ok(L0):
            D = _closure(L0, _head(base, lv)) or set()
            free = [r for r in range(v + 1, L0["n"]) if r not in D and not any(sg[1] == r for sg in L0["sig"])]
            if free:
                c = cp()
                c["levels"][lv]["bad"] = [v]
                c["levels"][lv]["sig"].append([v, rng.choice(free), rng.choice(["run", "acc"]), "failed"])
                out.append(c)
    # a failing node somewhere else (must not matter)
    if rng.random() < 0.4:
        c = cp()
        lv = rng.randrange(len(levels))
        c["levels"][lv]["bad"] = [rng.randrange(levels[lv]["n"])]
        out.append(c)
    if rng.random() < 0.5:
        c = cp()
        lv = rng.choice(pulled_levels(base))
        L = c["levels"][lv]
        k = _head(base, lv)
        D = sorted(_closure(L, k) or [k])
        how = rng.choice(["self", "back", "back", "far"])
        if how == "self":
            v = rng.choice(D)
            L["data"].append([v, v, rng.randrange(3)])
        elif how == "back" and len(D) >= 2:
            u, v = sorted(rng.sample(D, 2))
            L["data"].append([v, u, rng.randrange(3)])
            if [u, v, 0] not in L["data"] and not any(a == u and b == v for a, b, _ in L["data"]):
                L["data"].append([u, v, rng.randrange(3)])
        else:
            v = rng.randrange(L["n"])
            L["data"].append([v, v, rng.randrange(3)])
        if lv > 0:   # the enclosing composite has a single input
            L["data"] = [[a, b, 0 if b == L["comp"] else ch] for a, b, ch in L["data"]]
        out.append(c)
    if rng.random() < 0.4:
        c = cp()
        lv = rng.choice(pulled_levels(base)) if rng.random() < 0.8 else rng.randrange(len(levels))
        L = c["levels"][lv]
        # above level 0 only upstream of the composite (never pushed); the composite itself only where its own
        # data tree is examined (refusal) -- otherwise the pull would really submit it to a thread pool
        hi = L["n"] if lv == 0 else L["comp"] + (1 if lv in pulled_levels(base) else 0)
        L["exe"] = sorted(rng.sample(range(hi), rng.randint(1, min(2, hi))))
        out.append(c)
    # a node of another composite feeding the closure (refused: not siblings) or sitting outside it (no effect)
    if rng.random() < 0.45:
        c = cp()
        lv = rng.choice(pulled_levels(base)) if rng.random() < 0.85 else rng.randrange(len(levels))
        L = c["levels"][lv]
        k = _head(base, lv)
        D = _closure(L, k) or {k}
        ok = [i for i in range(L["n"]) if i != k and i != L.get("comp")
              and not (L["par"] == "macro" and i in (0, L["n"] - 1))]
        inside = [i for i in ok if i in D]
        pick = inside if (inside and rng.random() < 0.8) else ok
        if pick:
            f = rng.choice(pick)
            L["foreign"] = [f]
            L["sig"] = [sg for sg in L["sig"] if f not in (sg[0], sg[1])]
            L["start"] = [i for i in L["start"] if i != f]
            if rng.random() < 0.3:
                L["bad"] = [f]
            out.append(c)
    if rng.random() < 0.25:
        c = cp()
        lv = rng.randrange(len(levels))
        L = c["levels"][lv]
        if rng.random() < 0.3 and L["par"] == "wf":
            L["pfailed"] = True
        else:
            L["failed"] = [rng.randrange(L["n"])]
        out.append(c)
    if rng.random() < 0.1 and levels[-1]["par"] == "none" and levels[-1]["n"] >= 2:
        c = cp()
        L = c["levels"][-1]
        L["labels"] = [rng.choice(["a", "b"]) for _ in range(L["n"])]
        out.append(c)
    return out


def _add_observer(rng, L, lv, head, wired):
    """append an uncached node hanging off `head`: data-downstream of it or an unrelated sibling"""
    i = L["n"]
    L["n"] += 1
    L["labels"].append(f"{'nmk'[lv]}{i}")
    if rng.random() < 0.6:
        L["data"].append([head, i, rng.randrange(3)])
    if wired:
        L["sig"].append([head, i, rng.choice(["run", "run", "acc"])])
    L.setdefault("nocache", []).append(i)
    return i


def _dag_wire(L):
    """what automation would wire: one all-of connection per data edge, sources as starting nodes"""
    pairs = []
    for u, v, _ in L["data"]:
        if [u, v, "acc"] not in pairs:
            pairs.append([u, v, "acc"])
    L["sig"] = pairs
    L["start"] = [v for v in range(L["n"]) if not any(w == v for _, w, _ in L["data"])]


def history_variants(rng, levels, target, parents):
    """the same pull 2-3 times with unchanged inputs, uncached observers hanging off the pulled node and off the
    enclosing macros: by hand-made connections, or -- after a run of the Workflow root -- by automation"""
    out = []

    def cp(**kw):
        c = {"levels": json.loads(json.dumps(levels)), "target": target, "parents": parents}
        c.update(kw)
        return c
    c = cp(repeat=rng.choice([2, 2, 3]))
    for lv, L in enumerate(c["levels"]):
        head = target if lv == 0 else L["comp"]
        for _ in range(rng.choice([1, 1, 2])):
            if L["n"] < 9:
                _add_observer(rng, L, lv, head, True)
    if parents and rng.random() < 0.3:
        c["call"] = True
    out.append(c)
    if rng.random() < 0.3:      # ... and an upstream node that fails every time
        ex = expectation(c)
        ups = [e for e in ex["allowed"] if e != (0, target)]
        if ups:
            d = json.loads(json.dumps(c))
            lv, v = rng.choice(ups)
            d["levels"][lv]["bad"] = [v]
            out.append(d)
    if levels[-1]["par"] == "wf":
        c = cp(repeat=rng.choice([1, 2, 2, 3]), prerun=True)
        for lv, L in enumerate(c["levels"]):
            head = target if lv == 0 else L["comp"]
            if L["n"] < 9:
                i = _add_observer(rng, L, lv, head, False)
                if not any(u == head and v == i for u, v, _ in L["data"]):
                    L["data"].append([head, i, 0])
            L["automate"] = True
            if L["par"] == "wf":
                L["sig"], L["start"] = [], []
            else:
                _dag_wire(L)
        out.append(c)
    return out


def warm_variants(rng, levels, target, parents):
    """the graph has been pulled (or its Workflow root run) before, so caches are warm; THEN an executor is put on a
    node of the closure and/or an upstream input changes; then the observed pull: refused exactly as for cold
    nodes (nothing executed, nothing left running, everything as before) resp. the right value"""
    out = []

    def cp(**kw):
        c = {"levels": json.loads(json.dumps(levels)), "target": target, "parents": parents}
        c.update(kw)
        return c
    kinds = ["pull"] + (["root"] if levels[-1]["par"] == "wf" else [])
    single = len(levels) == 1
    for with_exe in (True, False):
        if not with_exe and rng.random() < 0.5:
            continue
        c = cp(warm=rng.choice(kinds), repeat=rng.choice([1, 1, 2]))
        if c["warm"] == "root":
            for L in c["levels"]:
                L["automate"] = True
                if L["par"] == "wf":
                    L["sig"], L["start"] = [], []
                else:
                    _dag_wire(L)
        lv = rng.choice(pulled_levels(c))
        L = c["levels"][lv]
        D = sorted(_closure(L, _head(c, lv)) or [])
        if with_exe:
            L["exe"] = [rng.choice(D)] if rng.random() < 0.85 or len(D) < 2 else sorted(rng.sample(D, 2))
        if single and rng.random() < 0.7:
            L0 = c["levels"][0]
            D0 = sorted(_closure(L0, target) or [])
            ups = [v for v in D0 if v != target] or D0
            L0["touch"] = [rng.choice(ups)]
        if not with_exe and not c["levels"][0].get("touch"):
            continue
        out.append(c)
    return out


def rewire_variants(rng, levels, target, parents):
    """pull; re-wire the data upstream of the target (disconnect a provider / connect a new one); pull again on
    the same node objects: the second pull follows the wiring as it is NOW (providers are uncached, so that a call
    is an execution)"""
    if rng.random() < 0.45:
        return []
    c = {"levels": json.loads(json.dumps(levels)), "target": target, "parents": parents, "repeat": rng.choice([2, 2, 3])}
    L = c["levels"][0]
    D = sorted(_closure(L, target) or [target])
    rw = {"drop": [], "add": []}
    edges = [e for e in L["data"] if e[1] in D]
    if edges and rng.random() < 0.75:
        e = rng.choice(edges)
        rw["drop"].append(list(e))
        L.setdefault("nocache", []).append(e[0])
    if rng.random() < 0.7 or not rw["drop"]:
        v = rng.choice(D)
        if v > 0:
            q = rng.randrange(v)
            ch = rng.randrange(3)
            if [q, v, ch] not in L["data"]:
                rw["add"].append([q, v, ch])
                if rng.random() < 0.6 and q not in L.get("nocache", []):
                    L.setdefault("nocache", []).append(q)
    if not (rw["drop"] or rw["add"]):
        return []
    c["rewire"] = rw
    return [c]


def running_variants(rng, levels, target, parents):
    """a node of the upstream closure still flagged `running` (interrupted run, re-loaded mid-run; no executor):
    it cannot be run again, the pull fails -- cleanly"""
    if rng.random() < 0.7:
        return []
    c = {"levels": json.loads(json.dumps(levels)), "target": target, "parents": parents}
    lv = rng.choice(pulled_levels(c))
    L = c["levels"][lv]
    k = _head(c, lv)
    D = sorted(_closure(L, k) or [k])
    cand = [v for v in D if v != L.get("comp")]
    if len(D) < 2 or not cand:
        return []
    L["running"] = [rng.choice(cand)]
    return [c]


def generate(ctx):
    rng = ctx.rng
    n_graphs = ctx.n(66, 450)
    thorough = not ctx.quick
    cases, seen = [], set()
    for _ in range(n_graphs):
        levels = gen_graph(rng, thorough)
        n0 = levels[0]["n"]
        for target in range(n0):
            flags = [False, True] if (len(levels) > 1 or rng.random() < 0.3) else [rng.random() < 0.5]
            for parents in flags:
                for c in (variants(rng, levels, target, parents, thorough) + history_variants(rng, levels, target, parents)
                          + warm_variants(rng, levels, target, parents) + rewire_variants(rng, levels, target, parents)
                          + running_variants(rng, levels, target, parents)):
                    k = json.dumps(c, sort_keys=True)
                    if k not in seen:
                        seen.add(k)
                        cases.append(c)
    return cases


def corpus(ctx):
    out = []
    for p in sorted((lib.VERIF / "corpus" / PROP).glob("*.json")):
        out.extend(json.loads(p.read_text()))
    return out


def shrink_candidates(case):
    c = json.loads(json.dumps(case))
    levels = c["levels"]
    for lv, L in enumerate(levels):
        for fld in ("sig", "data", "start", "exe", "bad", "failed", "foreign", "nocache", "touch", "running", "expose"):
            for i in range(len(L.get(fld, []))):
                d = json.loads(json.dumps(c))
                del d["levels"][lv][fld][i]
                yield d
        if L["pfailed"]:
            d = json.loads(json.dumps(c))
            d["levels"][lv]["pfailed"] = False
            yield d
        # drop the last node of a level when nothing refers to it
        last = L["n"] - 1
        used = (any(last in (u, v) for u, v, _ in L["data"]) or any(last in (sg[0], sg[1]) for sg in L["sig"])
                or last in L["start"] + L["exe"] + L["bad"] + L["failed"] + L.get("foreign", []) + L.get("nocache", []) + L.get("touch", []) + L.get("running", []) + [e[0] for e in L.get("expose", [])]
                or L.get("comp") == last
                or (lv == 0 and c["target"] == last)
                or (lv == 0 and any(last in (e[0], e[1]) for e in (c.get("rewire") or {}).get("drop", [])
                                    + (c.get("rewire") or {}).get("add", []))))
        if not used and L["n"] > (1 if lv == 0 else 2):
            d = json.loads(json.dumps(c))
            D = d["levels"][lv]
            D["n"] -= 1
            lab = D["labels"].pop()
            yield d
    if c["parents"]:
        d = json.loads(json.dumps(c))
        d["parents"] = False
        yield d
    if c.get("call"):
        d = json.loads(json.dumps(c))
        d.pop("call")
        yield d


def distribution(results):
    d = {"depth": {}, "top": {}, "result": {}, "parents": 0, "refused": 0, "must_fail": 0, "s12": 0,
         "closure_sizes": {}, "automate_left_off_after_failure": 0, "signal_order_changed": 0,
         "parent_left_failed": 0, "not_modelled": 0}
    for c, enc, v, o in results:
        if not (isinstance(o, list) and len(o) in (5, 6)):
            continue
        d["depth"][len(c["levels"])] = d["depth"].get(len(c["levels"]), 0) + 1
        t = c["levels"][-1]["par"]
        d["top"][t] = d["top"].get(t, 0) + 1
        d["result"][o[0]] = d["result"].get(o[0], 0) + 1
        d["parents"] += bool(c["parents"])
        ex = expectation(c)
        d["refused"] += ex["refusal"] is not None
        d["must_fail"] += bool(ex["must_fail"])
        d["s12"] += bool(v and v.startswith("ran-outside-closure"))      # now: failed-handler pushes only
        k = len(ex["allowed"])
        d["closure_sizes"][k] = d["closure_sizes"].get(k, 0) + 1
        d["not_modelled"] += not modelled(c)
        for (b, a) in zip(o[3], o[2]):
            if b[2] and not a[2]:
                d["automate_left_off_after_failure"] += 1      # observation (DESIGN C11 residue), not a violation
            if not b[3] and a[3]:
                d["parent_left_failed"] += 1
        if c.get("ordered") and o[2] != o[3]:
            d["signal_order_changed"] += 1                      # observation: connection order is not restored
    return d
