"""C16 -- a for-loop node computes exactly the nested-times-zipped table of its body.

Three families of cases, all run on the REAL library:
  maps      pyiron_workflow.nodes.for_loop.dictionary_to_index_maps on a dict of given lengths
  node      a real For node made by for_node(...) / BodyClass.for_node(...): a sequence of runs with
            re-assigned inputs (changed lengths), either output form, column maps, use_cache on/off,
            body nodes run locally, on a plain ThreadPoolExecutor (real concurrency, jittered
            durations) or on an ordered pool that completes the body nodes in a prescribed order
  shortcut  body_instance.iter(...) / body_instance.zip(...)

Oracle = a plain-python nested-loops reference (independent of the Coq model): rows, column names
and order, the multiset of body calls (exactly one call per row on a rebuilding run, none on a
cache hit), and the children after each run (body nodes = rows, collectors, item nodes).
Model = coq/theories/ForLoop.v evaluated on the same case (ForLoop.scenario / index_maps / shortcut).
"""
from __future__ import annotations

import itertools
import json
import os
import tempfile
import threading
import time
from concurrent.futures import Future, ThreadPoolExecutor

from pyiron_workflow.nodes.function import as_function_node

from harness import lib
from harness.lib import cb, cl, cn, cs, cz

PROP = "C16"
IMPORTS = "Base ForLoop"
RULE = ("index-map cases: dicts of 1-5 keys with lengths 0-4 / non-iterables, nested and zipped key tuples "
        "(None, empty, overlapping, unknown keys); node cases: for_node over 9 toy body classes (1-4 inputs, "
        "one- and multi-character labels, two definitions of one class name), looped fields spelled as tuples or "
        "bare strings, "
        "every iterate/zip/broadcast split, lengths 0-4 incl. unequal zips, 1-4 runs with changed lengths, both "
        "output forms, column maps (incl. clashing ones), use_cache on/off, local / thread pool / ordered "
        "completion; shortcut cases: instance.iter/zip; session cases: 2-3 for-nodes made "
        "one after the other in one process over the same body name / looped fields / output form that differ in "
        "column map, cache flag, body definition or spelling, each checked against its own configuration; toggle "
        "cases: node.use_cache re-assigned between runs (on/off/on) while earlier input assignments come back as "
        "fresh equal lists; array cases (ORACLE ONLY, not evaluated by the Coq model whose cells are integers): a "
        "broadcast input holding a float numpy array or a number, replaced between runs by arrays of other "
        "lengths with equal elements / by the number. Non-trivial = at least one run returns a table with "
        ">=2 rows or the helper returns >=2 maps; distinct = distinct case JSON")
TRUSTED = ["array-valued broadcast inputs (body `Weighted`) are checked by the plain-python oracle only: rows, "
           "columns, children, and body calls (none or one per row) against the inputs of each run",
           "harness OrderedPool (subclass of concurrent.futures.ThreadPoolExecutor) completes the futures it is "
           "given in the prescribed order from one scheduler thread",
           "pandas.DataFrame construction/`to_dict('records')` (tables are compared as column list + row dicts)"]
ASSUMPTIONS = ["cell values are integers; body node functions are deterministic, return one value per output label "
               "and do not fail",
               "inputs are re-assigned (fresh lists) between runs; in-place mutation of an input list is not part "
               "of the scenario language (it defeats Node's cache for every node class, see report)",
               "a scenario stops at the first run that fails while running (the node is `failed` afterwards)",
               "executor callbacks run atomically with respect to the parent's polling loop (S20 is C01's)"]

# ---------------------------------------------------------------------------------------------
# toy body node classes (module level: the library reads their source)
LOG: list = []
JITTER = [0]


def _note(*args):
    LOG.append(list(args))
    if JITTER[0]:
        time.sleep(((sum(args) * 7919 + JITTER[0] * 104729) % 7) * 0.002)


@as_function_node("y")
def T0(a):
    _note(a)
    return 2 * a + 1


@as_function_node("s", "p")
def T1(a=5, b=7):
    _note(a, b)
    return a + 10 * b, a * b


@as_function_node("t")
def T2(a, b, c=1):
    _note(a, b, c)
    return a + 10 * b + 100 * c


@as_function_node("u", "v")
def T3(a, b, c=2, d=3):
    _note(a, b, c, d)
    return a + 10 * b + 100 * c + 1000 * d, a - d


@as_function_node("a", "q")
def T4(a=4, b=6):
    _note(a, b)
    return a + b, a * b + 1


@as_function_node("w")
def T5(x=1, y=2, z=3):
    _note(x, y, z)
    return x * 100 + y * 10 + z


def _make_scale(k):
    """two definitions of a node class called `Scale` (what re-running a notebook cell after an edit gives);
    input labels of more than one character"""
    if k == 2:
        @as_function_node("y")
        def Scale(xs, factor=1):
            _note(xs, factor)
            return xs * 2 * factor
    else:
        @as_function_node("y")
        def Scale(xs, factor=1):
            _note(xs, factor)
            return xs * 3 * factor
    return Scale


T6 = _make_scale(2)
T7 = _make_scale(3)


@as_function_node("u", "w")
def Pair(xs, ys, val=1):
    _note(xs, ys, val)
    return xs + 10 * ys + 100 * val, xs * ys


@as_function_node("weighted", "n")
def Weighted(x, w=1.0):
    """broadcast input `w` may be a number or a numpy array"""
    import numpy as np
    LOG.append([x, w])
    return int(x * np.sum(w)), int(np.size(w))


BODIES = [T0, T1, T2, T3, T4, T5, T6, T7, Pair, Weighted]
BODY_NAMES = ["T0", "T1", "T2", "T3", "T4", "T5", "Scale", "Scale", "Pair", "Weighted"]
ARRAY_BODY = 9      # its cases are checked by the oracle only (the Coq model's cells are integers)


def _arr(v):
    """case value -> what the node is given: {"arr": [..]} is a fresh float numpy array"""
    if isinstance(v, dict):
        import numpy as np
        return np.array(v["arr"], dtype=float)
    return v


def _canon_arg(a):
    """a logged call argument in canonical form: numbers as int, arrays as list of int"""
    if hasattr(a, "tolist") and hasattr(a, "shape") and a.shape != ():
        return [_canon_value(x) for x in a.tolist()]
    return _canon_value(a)


def _ref_weighted(x, w):
    ws = w["arr"] if isinstance(w, dict) else [w]
    return [x * sum(ws), len(ws)]
# (input label, default | None), output labels, python reference of the node function
SIG = [
    ([("a", None)], ["y"], lambda a: [2 * a + 1]),
    ([("a", 5), ("b", 7)], ["s", "p"], lambda a, b: [a + 10 * b, a * b]),
    ([("a", None), ("b", None), ("c", 1)], ["t"], lambda a, b, c: [a + 10 * b + 100 * c]),
    ([("a", None), ("b", None), ("c", 2), ("d", 3)], ["u", "v"],
     lambda a, b, c, d: [a + 10 * b + 100 * c + 1000 * d, a - d]),
    ([("a", 4), ("b", 6)], ["a", "q"], lambda a, b: [a + b, a * b + 1]),
    ([("x", 1), ("y", 2), ("z", 3)], ["w"], lambda x, y, z: [x * 100 + y * 10 + z]),
    ([("xs", None), ("factor", 1)], ["y"], lambda xs, factor: [xs * 2 * factor]),
    ([("xs", None), ("factor", 1)], ["y"], lambda xs, factor: [xs * 3 * factor]),
    ([("xs", None), ("ys", None), ("val", 1)], ["u", "w"], lambda xs, ys, val: [xs + 10 * ys + 100 * val, xs * ys]),
    ([("x", None), ("w", 1)], ["weighted", "n"], _ref_weighted),
]


# ---------------------------------------------------------------------------------------------
class OrderedPool(ThreadPoolExecutor):
    """Collects the submitted body-node runs and, once the parent has stopped submitting, completes
    them one after the other in the order given by `prio` (rank of body_<n>), firing the library's
    done-callbacks from its scheduler thread."""

    def __init__(self, prio):
        super().__init__(max_workers=1)
        self.prio = list(prio)
        self.pending = []
        self.lock = threading.Lock()
        self.last = 0.0
        self.thread = None
        self.completed = []

    def _rank(self, fn):
        try:
            n = int(fn.__self__.label.rsplit("_", 1)[1])
        except Exception:
            return 10 ** 6
        return self.prio.index(n) if n in self.prio else 10 ** 5 + n

    def submit(self, fn, /, *args, **kwargs):
        f = Future()
        with self.lock:
            self.pending.append((self._rank(fn), len(self.pending), fn, args, kwargs, f))
            self.last = time.monotonic()
            if self.thread is None:
                self.thread = threading.Thread(target=self._drain, daemon=True)
                self.thread.start()
        return f

    def _drain(self):
        while True:
            time.sleep(0.004)
            with self.lock:
                if time.monotonic() - self.last < 0.025:
                    continue
                batch, self.pending, self.thread = self.pending, [], None
                break
        for _, _, fn, args, kwargs, f in sorted(batch, key=lambda t: t[:2]):
            if not f.set_running_or_notify_cancel():
                continue
            try:
                r = fn(*args, **kwargs)
            except BaseException as e:   # noqa: BLE001
                f.set_exception(e)
            else:
                self.completed.append(getattr(fn.__self__, "label", "?"))
                f.set_result(r)


# ---------------------------------------------------------------------------------------------
def _tolist(x):
    if isinstance(x, dict):
        return {k: _tolist(v) for k, v in x.items()}
    return [_tolist(e) for e in x] if isinstance(x, (list, tuple)) else x


def _exc_obs(e, failed=None, calls=None):
    name = type(e).__name__
    tag = ""
    if name == "ValueError":
        msg = str(e)
        if "At least one of" in msg:
            tag = "nokeys"
        elif "all values had length 0" in msg:
            tag = "allzero"
        elif "cannot iterate on" in msg:
            tag = "notinput"
    out = ["exc", name, tag]
    if failed is not None:
        out += [bool(failed), sorted(calls)]
    return out


def _canon_children(node):
    from pyiron_workflow.nodes.standard import GetItem, UserInput
    out = []
    for label, ch in node.children.items():
        if isinstance(ch, UserInput) and label in node._input_node_labels:
            out.append(["in", label])
        elif isinstance(ch, GetItem) and label.startswith("injected_GetItem_"):
            src = ch.inputs.obj.connections[0].owner.label if ch.inputs.obj.connections else "?"
            out.append(["gi", src, ch.inputs.item.value])
        elif label.startswith("body_") and label[5:].isdigit():
            out.append(["body", int(label[5:])])
        elif label.startswith("row_collector_") and label[14:].isdigit():
            out.append(["row", int(label[14:])])
        elif label.startswith("column_collector_"):
            out.append(["col", label[17:]])
        elif label == "dataframe":
            out.append(["dataframe"])
        else:
            out.append(["other", label])
    return out


def _canon_value(v):
    if isinstance(v, bool):
        return int(v)
    if isinstance(v, int):
        return v
    if isinstance(v, float) and v.is_integer():
        return int(v)
    if hasattr(v, "item") and not isinstance(v, (list, tuple, str)):   # numpy scalar
        return _canon_value(v.item())
    raise TypeError(f"cell value outside the integer universe: {v!r}")


def _canon_out(out, as_df):
    """DotDict of the node's outputs -> [names, rows] (dataframe form) or [names, columns]"""
    from pyiron_workflow.channels import NOT_DATA
    if as_df:
        df = out["df"]
        if df is NOT_DATA:
            return ["notdata"]
        names = [str(c) for c in df.columns]
        recs = df.to_dict("records")
        return [names, [[_canon_value(r[k]) for k in names] for r in recs]]
    if any(v is NOT_DATA for v in out.values()):
        return ["notdata"]
    names = list(out.keys())
    return [names, [[_canon_value(x) for x in out[k]] for k in names]]


def _make_executor(case):
    kind = case.get("exec")
    if kind == "pool":
        return ThreadPoolExecutor(max_workers=case.get("workers", 3))
    if kind == "ordered":
        return OrderedPool(case["prio"])
    return None


def run_impl(case):
    case = _tolist(case)
    if case["kind"] == "maps":
        return _run_maps(case)
    LOG.clear()
    JITTER[0] = case.get("jitter", 0) if case.get("exec") == "pool" else 0
    ex = _make_executor(case)
    # every case starts from an empty class registry, so that what a case shows does not depend on the cases run
    # before it in this process (a replay reproduces it); sessions build up their own history
    from pyiron_workflow.nodes.for_loop import for_node_factory
    for_node_factory.clear()
    cwd = os.getcwd()
    os.chdir(_scratch())       # a failing root node drops <label>/recovery.pckl into the working directory
    try:
        if case["kind"] == "shortcut":
            return _run_shortcut(case, ex)
        if case["kind"] == "session":
            return [_run_node(sub, ex, with_name=True) for sub in case["nodes"]]
        return _run_node(case, ex)
    finally:
        os.chdir(cwd)
        JITTER[0] = 0
        if ex is not None:
            ex.shutdown(wait=True)


_SCRATCH = []


def _scratch():
    if not _SCRATCH:
        _SCRATCH.append(tempfile.mkdtemp(prefix="verif_c16_"))
        import atexit
        import shutil
        atexit.register(shutil.rmtree, _SCRATCH[0], ignore_errors=True)
    return _SCRATCH[0]


def _run_maps(case):
    from pyiron_workflow.nodes.for_loop import dictionary_to_index_maps
    data = {k: (5 if n is None else list(range(100, 100 + n))) for k, n in case["data"]}
    nk = None if case["nk"] is None else tuple(case["nk"])
    zk = None if case["zk"] is None else tuple(case["zk"])
    try:
        maps = dictionary_to_index_maps(data, nested_keys=nk, zipped_keys=zk)
    except Exception as e:   # noqa: BLE001
        return _exc_obs(e)
    return ["ok", [[[k, int(i)] for k, i in m.items()] for m in maps]]


def _colmap(case):
    return {a: b for a, b in case["colmap"]} if case["colmap"] else None


def _bare(case, field):
    """is iter_on / zip_on spelled as a bare string (possible for a single looped input)?"""
    if len(case[field]) != 1:
        return False
    return bool(case.get("bare_str")) or field in (case.get("bare") or [])


def _run_node(case, ex, with_name=False):
    from pyiron_workflow.nodes.for_loop import for_node
    body = BODIES[case["body"]]
    kw = dict(iter_on=tuple(case["iter"]), zip_on=tuple(case["zip"]), output_as_dataframe=case["df"],
              output_column_map=_colmap(case), use_cache=case["cache"])
    # a single looped input may be named by a bare string instead of a 1-tuple
    if _bare(case, "iter"):
        kw["iter_on"] = kw["iter_on"][0]
    if _bare(case, "zip"):
        kw["zip_on"] = kw["zip_on"][0]
    try:
        node = body.for_node(**kw) if case.get("entry") == "cls" else for_node(body, **kw)
    except Exception as e:   # noqa: BLE001
        return ["", [_exc_obs(e)]] if with_name else [_exc_obs(e)]
    if with_name:
        return [type(node).__name__, _run_steps(case, node, ex)]
    return _run_steps(case, node, ex)


def _run_steps(case, node, ex):
    obs = [["created"]]
    node.recovery = None          # no recovery file for the failing runs of the scenarios
    if ex is not None:
        node.body_node_executor = ex
    for st in case["steps"]:
        LOG.clear()
        if st.get("cache") is not None:
            node.use_cache = st["cache"]          # the user switches caching off / on between two runs
        try:
            out = node.run(**{k: _arr(v) for k, v in st["set"]})
        except Exception as e:   # noqa: BLE001
            obs.append(_exc_obs(e, node.failed, _calls()))
            if node.failed:
                break
            continue
        obs.append(["ok", _canon_out(out, case["df"]), _canon_children(node), sorted(_calls())])
    return obs


def _calls():
    return [[_canon_arg(a) for a in c] for c in LOG]


def _run_shortcut(case, ex):
    body = BODIES[case["body"]]
    inst = body(**{k: v for k, v in case["held"] if v is not None})
    loops = {k: v for k, v in case["loops"]}
    try:
        df = (inst.zip if case["style"] == "zip" else inst.iter)(body_node_executor=ex,
                                                                 output_column_map=_colmap(case), **loops)
    except Exception as e:   # noqa: BLE001
        failed = type(e).__name__ in ("FailedChildError",)
        return _exc_obs(e, failed, [list(c) for c in LOG])
    return ["ok", _canon_out({"df": df}, True), [], sorted(list(c) for c in LOG)]


# ---------------------------------------------------------------------------------------------
# Coq terms
def c_olist(x, f):
    return "None" if x is None else "(Some " + cl(f(e) for e in x) + ")"


def c_ival(v):
    return f"(IL {cl(cz(x) for x in v)})" if isinstance(v, list) else f"(IZ {cz(v)})"


def c_cfg(case):
    cm = cl(f"({cs(a)}, {cs(b)})" for a, b in (case["colmap"] or []))
    return (f"{{| c_body := toy {cn(case['body'])}; c_iter := {cl(cs(k) for k in case['iter'])}; "
            f"c_zip := {cl(cs(k) for k in case['zip'])}; c_df := {cb(case['df'])}; c_map := {cm}; "
            f"c_cache := {cb(case['cache'])} |}}")


def _order(case):
    return cl(cn(i) for i in case["prio"]) if case.get("exec") == "ordered" else "[]"


def model_term(case):
    case = _tolist(case)
    if case["kind"] == "maps":
        data = cl(f"({cs(k)}, {'None' if n is None else '(Some ' + cn(n) + ')'})" for k, n in case["data"])
        return f"obs_index_maps (index_maps {data} {c_olist(case['nk'], cs)} {c_olist(case['zk'], cs)})"
    if case["kind"] == "shortcut":
        held = cl(f"({cs(k)}, {'None' if v is None else '(Some ' + cz(v) + ')'})" for k, v in case["held"])
        loops = cl(f"({cs(k)}, {cl(cz(x) for x in v)})" for k, v in case["loops"])
        cm = cl(f"({cs(a)}, {cs(b)})" for a, b in (case["colmap"] or []))
        return f"shortcut (toy {cn(case['body'])}) {cb(case['style'] == 'zip')} {held} {loops} {cm} {_order(case)}"
    if case["kind"] == "node" and case["body"] == ARRAY_BODY:
        return None       # array-valued broadcast inputs: outside the model's integer cells, oracle only
    if case["kind"] == "session":
        return "session " + cl(f"({c_request(sub)}, {c_steps(sub)})" for sub in case["nodes"])
    return f"scenario {c_cfg(case)} {c_steps(case)}"


def c_steps(case):
    return cl("(" + ("None" if st.get("cache") is None else f"Some {cb(st['cache'])}") + ", ("
              + cl(f"({cs(k)}, {c_ival(v)})" for k, v in st["set"]) + ", " + _order(case) + "))"
              for st in case["steps"])


def c_spelling(case, field):
    if _bare(case, field):
        return f"(SBare {cs(case[field][0])})"
    return f"(STuple {cl(cs(k) for k in case[field])})"


def c_request(case):
    cm = cl(f"({cs(a)}, {cs(b)})" for a, b in (case["colmap"] or []))
    return (f"{{| q_name := toy_name {cn(case['body'])}; q_body := toy {cn(case['body'])}; "
            f"q_iter := {c_spelling(case, 'iter')}; q_zip := {c_spelling(case, 'zip')}; q_df := {cb(case['df'])}; "
            f"q_map := {cm}; q_cache := {cb(case['cache'])} |}}")


# ---------------------------------------------------------------------------------------------
# the property, in plain python
def ref_maps(lens_n, lens_z, nk, zk):
    """the nested x zipped enumeration: list of {key: index}; nk/zk key lists (may be empty)"""
    out = []
    nz = min(lens_z) if zk else None
    for combo in itertools.product(*[range(n) for n in lens_n]):       # nested = outer loops, in key order
        for z in (range(nz) if zk else [None]):                        # zipped = inner loop, lock step
            m = {}
            for k, i in zip(nk, combo):
                m[k] = i
            for k in zk:
                m[k] = z
            out.append(m)
    return out


def _oracle_maps(case, obs):
    data = dict((k, n) for k, n in case["data"])
    nk, zk = case["nk"] or [], case["zk"] or []
    if any(k not in data for k in nk + zk) or any(data[k] is None for k in nk + zk):
        return None if obs[0] == "exc" and obs[1] in ("KeyError", "TypeError") else \
            f"bad-input-accepted: unknown key / non-iterable data gave {obs[:2]}"
    if len(set(nk + zk)) != len(nk + zk):
        return None      # a key given twice: not a loop layout, only compared with the model
    if not nk and not zk:
        return None if obs[0] == "exc" and obs[1] == "ValueError" else "no-keys-accepted: no key to loop on, yet no ValueError"
    ref = ref_maps([data[k] for k in nk], [data[k] for k in zk], nk, zk)
    if not ref:
        if obs[0] == "exc" and obs[1] == "ValueError":
            return None
        if obs[0] == "ok" and obs[1] == []:
            return None
        return (f"phantom-maps: there is no combination to loop over (some length is 0) but "
                f"{len(obs[1]) if obs[0] == 'ok' else obs} index maps came back")
    if obs[0] != "ok":
        return f"refused: {len(ref)} combinations exist but the helper raised {obs[1]}"
    got = [dict((k, i) for k, i in m) for m in obs[1]]
    if len(got) != len(ref):
        return f"count: {len(got)} index maps, expected {len(ref)}"
    for r, (g, e) in enumerate(zip(got, ref)):
        if g != e:
            return f"order: index map {r} is {g}, expected {e}"
    return None


def _ref_table(case, inputs):
    """rows (list of dict in column order), calls, for complete inputs; None when some input is missing"""
    ins, outs, fn = SIG[case["body"]]
    looped = case["iter"] + case["zip"]
    for l, _ in ins:
        if inputs.get(l) is None:
            return None
    colmap = dict(case["colmap"] or [])
    nz = min(len(inputs[k]) for k in case["zip"]) if case["zip"] else None
    rows, calls = [], []
    for combo in itertools.product(*[range(len(inputs[k])) for k in case["iter"]]):
        for z in (range(nz) if case["zip"] else [None]):
            idx = dict(zip(case["iter"], combo))
            idx.update({k: z for k in case["zip"]})
            args = [inputs[l][idx[l]] if l in idx else inputs[l] for l, _ in ins]
            res = fn(*args)
            row = [(k, inputs[k][idx[k]]) for k in looped] + [(colmap.get(o, o), v) for o, v in zip(outs, res)]
            rows.append(row)
            calls.append([a["arr"] if isinstance(a, dict) else a for a in args])
    return rows, calls


def _as_layout(case):
    """the loop layout of a case in the node vocabulary (shortcut cases: dataframe form, one run)"""
    if case["kind"] == "shortcut":
        ls = [k for k, _ in case["loops"]]
        return {**case, "iter": ls if case["style"] == "iter" else [], "zip": ls if case["style"] == "zip" else [],
                "df": True, "cache": True}
    return case


def _layout_problem(case):
    """None when iterated/zipped/broadcast is a partition of the body's inputs with something looped, the
    column map renames existing outputs and all resulting column names are distinct"""
    ins, outs, _ = SIG[case["body"]]
    labels = [l for l, _ in ins]
    looped = case["iter"] + case["zip"]
    if not looped:
        return "nothing-looped"
    if len(set(looped)) != len(looped) or any(l not in labels for l in looped):
        return "looped-not-inputs"
    cm = dict(case["colmap"] or [])
    if any(k not in outs for k in cm):
        return "map-nonexistent-output"
    if any(l in outs and l not in cm for l in looped):
        return "unmapped-conflict"
    cols = _columns(case)
    if len(set(cols)) != len(cols):
        return "column-clash"
    return None


def _columns(case):
    _, outs, _ = SIG[case["body"]]
    cm = dict(case["colmap"] or [])
    return case["iter"] + case["zip"] + [cm.get(o, o) for o in outs]


def mixed_zero(case, inputs):
    """one group (iterated / zipped) is present and has no position, the other would produce rows"""
    if not case["iter"] or not case["zip"]:
        return False
    try:
        p = 1
        for k in case["iter"]:
            p *= len(inputs[k])
        z = min(len(inputs[k]) for k in case["zip"])
    except (TypeError, KeyError):
        return False
    return (p == 0) != (z == 0)


def _expected_children(case, rows_idx):
    ins, outs, _ = SIG[case["body"]]
    cm = dict(case["colmap"] or [])
    ch = [["in", l] for l, _ in ins]
    for n, idx in enumerate(rows_idx):
        ch.append(["body", n])
        for k in case["iter"] + case["zip"]:
            g = ["gi", k, idx[k]]
            if g not in ch:
                ch.append(g)
    if case["df"]:
        ch.append(["dataframe"])
        ch += [["row", n] for n in range(len(rows_idx))]
    else:
        ch += [["col", cm.get(o, o)] for o in outs] + [["col", k] for k in case["zip"] + case["iter"]]
    return ch


def _oracle_steps(case, obs, shortcut=False):
    ins, outs, _ = SIG[case["body"]]
    problem = _layout_problem(case)
    if problem:
        # not a loop layout: the library must refuse it somewhere, never hand out a table
        for o in ([obs] if shortcut else obs):
            if o[0] == "ok" and o[1] != ["notdata"]:
                return (f"bad-layout-accepted: {problem}: iter={case['iter']} zip={case['zip']} "
                        f"colmap={case['colmap']} returned the table {o[1]}")
        return None
    if not shortcut:
        if obs[0] != ["created"]:
            return f"refused-layout: a valid loop layout was refused at creation with {obs[0][1]}"
        runs = obs[1:]
    else:
        runs = [obs]
    inputs = {l: (None if l in case["iter"] + case["zip"] else d) for l, d in ins}
    if shortcut:
        inputs.update({k: v for k, v in case["held"]})
        steps = [{"set": case["loops"]}]
    else:
        steps = case["steps"]
    prev_table = None
    use_cache = case["cache"]        # the node's flag right now (steps may re-assign it)
    remembered = None                # inputs of the last successful run made with caching on, while its table stands
    for k, (st, o) in enumerate(zip(steps, runs)):
        if st.get("cache") is not None:
            use_cache = st["cache"]
        inputs.update({l: v for l, v in st["set"]})
        ref = _ref_table(case, inputs)
        if ref is None:
            # some input holds no data: outside the property; the node must not invent a table
            if o[0] == "ok" and o[1] != ["notdata"] and (prev_table is None or o[1] != prev_table):
                return f"table-from-nothing: run {k} returned a table although an input holds no data"
            continue
        rows, calls = ref
        if not rows:
            if o[0] == "exc" and o[1] == "ValueError" and o[4] == []:
                continue
            if o[0] == "ok" and o[1][1:] and all(len(x) == 0 for x in o[1][1]) and o[3] == []:
                continue
            if o[0] == "exc":
                return (f"zero-rows-failure: run {k}: no combination exists; expected ValueError or an empty table "
                        f"without running the body, got {o[1]} with body calls {o[4]}")
            return f"phantom-rows: run {k}: no combination exists, yet a non-empty table came back"
        if o[0] != "ok":
            return f"refused: run {k}: {len(rows)} rows expected, got {o[1]} {o[2]}"
        if o[1] == ["notdata"]:
            return f"no-table: run {k}: outputs hold no data"
        names, mat = o[1]
        if case["df"]:
            exp_names = [c for c, _ in rows[0]]
            exp_mat = [[v for _, v in r] for r in rows]
            what = "rows"
        else:
            looped = case["iter"] + case["zip"]
            exp_names = [l for l, _ in ins if l in looped] + [c for c, _ in rows[0][len(looped):]]
            exp_mat = [[dict(r)[c] for r in rows] for c in exp_names]
            what = "columns"
        if names != exp_names:
            return f"columns: run {k}: names {names}, expected {exp_names}"
        if len(mat) != len(exp_mat) or any(len(a) != len(b) for a, b in zip(mat, exp_mat)):
            return f"count: run {k}: {what} shape differs: got {len(mat)} expected {len(exp_mat)} ({len(rows)} rows)"
        if mat != exp_mat:
            return f"rows: run {k}: {what} {mat}, expected {exp_mat}"
        table = o[1]
        # a run may be answered without running the body only when caching is on and the inputs are those of
        # the last successful run that was made with caching on (whose table still stands)
        rebuilt = not (use_cache and remembered == inputs)
        if case["body"] == ARRAY_BODY:
            # arrays: how equality of array inputs is decided is not the property's business -- the table was just
            # checked against the CURRENT inputs, so answering without running the body was harmless, and running
            # it for an equal but fresh array is fine too; anything in between is not
            if o[3] not in ([], sorted(calls)):
                return f"calls: run {k}: body calls {o[3]}, expected none or one per row {sorted(calls)}"
        elif rebuilt and o[3] != sorted(calls):
            return f"calls: run {k}: body calls {o[3]}, expected one per row {sorted(calls)}"
        elif not rebuilt and o[3] != []:
            return f"calls: run {k}: body ran on a cache hit {o[3]}"
        if not shortcut:
            idxs = []
            nz = min(len(inputs[z]) for z in case["zip"]) if case["zip"] else None
            for combo in itertools.product(*[range(len(inputs[i])) for i in case["iter"]]):
                for z in (range(nz) if case["zip"] else [None]):
                    d = dict(zip(case["iter"], combo))
                    d.update({zz: z for zz in case["zip"]})
                    idxs.append(d)
            exp_ch = _expected_children(case, idxs)
            if sorted(map(json.dumps, o[2])) != sorted(map(json.dumps, exp_ch)):   # as a set: order is the model's business
                nb = sum(1 for c in o[2] if c[0] == "body")
                return (f"children: run {k}: {len(o[2])} children ({nb} body nodes), expected {len(exp_ch)} "
                        f"({len(rows)} body nodes): {o[2]}")
        prev_table = table
        if rebuilt:                          # the body was rebuilt: what was remembered before is gone
            remembered = dict(inputs) if use_cache else None
    return None


def oracle(case, obs):
    case = _tolist(case)
    if case["kind"] == "maps":
        return _oracle_maps(case, obs)
    if case["kind"] == "session":
        # every for-node of the session against ITS OWN body, looped fields, output form, column map and cache
        # flag -- whatever was made before it in the same process
        for j, (sub, o) in enumerate(zip(case["nodes"], obs)):
            v = _oracle_steps(sub, o[1])
            if v:
                sig, rest = v.split(":", 1)
                return f"{sig}: node {j} of the session ({len(case['nodes'])} for-nodes made one after the other):{rest}"
        return None
    return _oracle_steps(_as_layout(case), obs, shortcut=case["kind"] == "shortcut")


# ---------------------------------------------------------------------------------------------
def _inputs_at_failure(case, obs, verdict):
    """inputs in force at the run the verdict talks about"""
    ins, _, _ = SIG[case["body"]]
    inputs = {l: (None if l in case["iter"] + case["zip"] else d) for l, d in ins}
    if case["kind"] == "shortcut":
        inputs.update({k: v for k, v in case["held"]})
        inputs.update({k: v for k, v in case["loops"]})
        return inputs
    try:
        k = int(verdict.split("run ")[1].split(":")[0])
    except Exception:
        return None
    for st in case["steps"][:k + 1]:
        inputs.update({l: v for l, v in st["set"]})
    return inputs


def known(case, obs, verdict):
    case = _tolist(case)
    sig = verdict.split(":")[0]
    if case["kind"] == "maps":
        if sig == "phantom-maps":
            data = dict((k, n) for k, n in case["data"])
            nk, zk = case["nk"] or [], case["zk"] or []
            p = 1
            for k in nk:
                p *= data[k]
            z = min(data[k] for k in zk) if zk else 0
            if nk and zk and (p == 0) != (z == 0):
                return "C16-mixed-zero-length"
        return None
    if case["kind"] == "session":
        try:
            j = int(verdict.split(": node ")[1].split(" ")[0])
        except Exception:
            return None
        sub_verdict = verdict.split(":", 1)[0] + ":" + verdict.split("):", 1)[1]
        return known(case["nodes"][j], obs[j][1], sub_verdict)
    case = _as_layout(case)
    if sig == "bad-layout-accepted" and _layout_problem(case) == "column-clash":
        return "C16-column-map-clash"
    if sig == "zero-rows-failure":
        inputs = _inputs_at_failure(case, obs, verdict)
        if inputs is not None and mixed_zero(case, inputs):
            return "C16-mixed-zero-length"
    return None


# ---------------------------------------------------------------------------------------------
def nontrivial(case, obs):
    if case["kind"] == "maps":
        return obs[0] == "ok" and len(obs[1]) >= 2
    if case["kind"] == "session":
        return any(nontrivial(sub, o[1]) for sub, o in zip(case["nodes"], obs))
    runs = [obs] if case["kind"] == "shortcut" else obs[1:]
    for o in runs:
        if o[0] == "ok" and o[1] != ["notdata"] and o[1][1]:
            n = len(o[1][1]) if case.get("df", True) else len(o[1][1][0])
            if n >= 2:
                return True
    return False


def key(case):
    return case


def corpus(ctx):
    out = []
    for p in sorted((lib.VERIF / "corpus" / PROP).glob("*.json")):
        out.extend(json.loads(p.read_text()))
    return out


# ---------------------------------------------------------------------------------------------
# generators
def _gen_maps(rng):
    keys = ["a", "b", "c", "d", "e"][:rng.choice([1, 2, 3, 3, 4, 5])]
    data = [[k, (None if rng.random() < 0.06 else rng.choice([0, 0, 1, 1, 2, 2, 3, 4]))] for k in keys]
    pool = keys + (["zz"] if rng.random() < 0.08 else [])

    def pick():
        r = rng.random()
        if r < 0.12:
            return None
        if r < 0.2:
            return []
        ks = rng.sample(pool, rng.randint(1, min(3, len(pool))))
        return ks
    nk, zk = pick(), pick()
    if nk and zk and rng.random() < 0.85:      # mostly disjoint groups
        zk = [k for k in zk if k not in nk] or zk
    return {"kind": "maps", "data": data, "nk": nk, "zk": zk}


def _gen_len(rng, zero_ok=True):
    return rng.choice(([0] if zero_ok else []) + [1, 1, 2, 2, 2, 3, 3, 4])


def _gen_list(rng, n):
    return [rng.randint(-3, 9) for _ in range(n)]


def _gen_layout(rng, b):
    ins, outs, _ = SIG[b]
    labels = [l for l, _ in ins]
    roles = {}
    while True:
        for l in labels:
            roles[l] = rng.choice(["iter", "iter", "zip", "zip", "bcast"])
        if any(r != "bcast" for r in roles.values()) or rng.random() < 0.05:
            break
    it = [l for l in labels if roles[l] == "iter"]
    zp = [l for l in labels if roles[l] == "zip"]
    rng.shuffle(it)
    rng.shuffle(zp)
    colmap = []
    for o in outs:
        need = o in it + zp
        if need or rng.random() < 0.3:
            colmap.append([o, rng.choice(["out_" + o, o.upper(), "col" + o])])
    r = rng.random()
    if r < 0.04 and it + zp:                       # clash with a looped label
        colmap = [m for m in colmap if m[0] != outs[0]] + [[outs[0], rng.choice(it + zp)]]
    elif r < 0.07 and len(outs) > 1:               # two outputs under one name
        colmap = [[o, "same"] for o in outs]
    elif r < 0.09:                                 # renames a non-existent output
        colmap.append(["nope", "x"])
    elif r < 0.11 and colmap:                      # forgets a necessary renaming
        colmap = []
    elif r < 0.13:                                 # loops over something that is not an input
        (it if rng.random() < 0.5 else zp).append("nope")
    return it, zp, colmap


def _gen_steps(rng, b, it, zp, nsteps):
    ins, _, _ = SIG[b]
    steps = []
    for s in range(nsteps):
        sets = []
        zero_mode = rng.random()
        for l, d in ins:
            if l in it or l in zp:
                if s > 0 and rng.random() < 0.25:
                    continue                         # keep the previous list
                n = _gen_len(rng, zero_ok=zero_mode < 0.22)
                if zero_mode < 0.04:
                    n = 0
                sets.append([l, _gen_list(rng, n)])
            else:
                if s == 0:
                    if d is None or rng.random() < 0.6:
                        if not (d is None and rng.random() < 0.03):    # rarely forget a required input
                            sets.append([l, rng.randint(-2, 9)])
                elif rng.random() < 0.3:
                    sets.append([l, rng.randint(-2, 9)])
        if s == 0 and rng.random() < 0.03 and sets:
            sets = sets[:-1]                         # rarely forget an input altogether
        steps.append({"set": sets})
    if nsteps >= 2 and rng.random() < 0.2:
        steps[-1] = {"set": []}                      # run again with nothing changed (cache hit)
    if nsteps >= 2 and rng.random() < 0.2:           # the user switches caching off / on between runs
        for st in steps[1:]:
            if rng.random() < 0.6:
                st["cache"] = rng.random() < 0.5
    return steps


def _gen_toggle_node(rng):
    """histories around `use_cache` being re-assigned: run (remembered) -> caching off, other lengths -> caching on
    again, an earlier input assignment again (fresh, equal lists) -> ..."""
    b = rng.choice([1, 2, 3, 5, 6, 8])
    ins, outs, _ = SIG[b]
    while True:
        it, zp, colmap = _gen_layout(rng, b)
        case = {"kind": "node", "body": b, "iter": it, "zip": zp, "df": rng.random() < 0.5, "colmap": colmap,
                "cache": rng.random() < 0.75, "entry": rng.choice(["for_node", "cls"]), "exec": None}
        if _layout_problem(case) is None:
            break
    full = []      # complete assignments to come back to
    for _ in range(2):
        while True:
            st = _gen_steps(rng, b, it, zp, 1)[0]
            have = {l for l, _ in st["set"]}
            st["set"] += [[l, rng.randint(-2, 9)] for l, d in ins if l not in have and l not in it + zp]
            if all(len(v) > 0 for l, v in st["set"] if isinstance(v, list)) and \
                    {l for l, _ in st["set"]} == {l for l, _ in ins}:
                break
        full.append(st["set"])
    flag = case["cache"]
    steps = [{"set": full[0]}]
    for _ in range(rng.choice([2, 3, 3, 4])):
        st = {"set": [list(x) for x in rng.choice(full)]}
        if rng.random() < 0.7:
            flag = not flag
            st["cache"] = flag
        steps.append(st)
    case["steps"] = steps
    if _max_rows(case) > 24:
        return _gen_toggle_node(rng)
    return case


def _gen_array_node(rng):
    """a broadcast input that is a numpy array (or a number), replaced between runs by arrays of other lengths
    with the same elements / by the number -- with the looped input kept or changed"""
    role = rng.choice(["iter", "zip"])
    case = {"kind": "node", "body": ARRAY_BODY, "iter": ["x"] if role == "iter" else [],
            "zip": ["x"] if role == "zip" else [], "df": rng.random() < 0.5,
            "colmap": [["n", "size"]] if rng.random() < 0.3 else [], "cache": rng.random() < 0.85,
            "entry": rng.choice(["for_node", "cls"]), "exec": None}
    if rng.random() < 0.4:
        case["bare"] = [role]
    const = rng.choice([1, 1, 1, 2, 0])

    def wval():
        r = rng.random()
        if r < 0.25:
            return const
        n = rng.choice([0, 1, 1, 2, 2, 3, 3, 4])
        return {"arr": [const if rng.random() < 0.9 else const + 1 for _ in range(n)]}
    steps = [{"set": [["x", _gen_list(rng, _gen_len(rng, zero_ok=False))], ["w", wval()]]}]
    for _ in range(rng.choice([1, 2, 2, 3])):
        sets = [["w", wval()]] if rng.random() < 0.9 else []
        if rng.random() < 0.35:
            sets.append(["x", _gen_list(rng, _gen_len(rng, zero_ok=False))])
        steps.append({"set": sets})
    case["steps"] = steps
    return case


def _gen_exec(rng, case, p_exec):
    r = rng.random()
    if r < p_exec * 0.6:
        case["exec"] = "ordered"
        prio = list(range(12))
        rng.shuffle(prio)
        case["prio"] = prio
    elif r < p_exec:
        case["exec"] = "pool"
        case["workers"] = rng.choice([1, 2, 3, 5])
        case["jitter"] = rng.randint(1, 50)
    else:
        case["exec"] = None


def _max_rows(case):
    """largest number of body nodes any run of the case can build (bounds the cost of a case)"""
    cur, worst = {}, 0
    for st in case["steps"]:
        cur.update({l: v for l, v in st["set"] if isinstance(v, list)})
        p = 1
        for k in case["iter"]:
            p *= max(1, len(cur.get(k, [])))
        z = max([len(cur.get(k, [])) for k in case["zip"]] or [1])
        worst = max(worst, p * max(1, z))
    return worst


def _gen_node(rng, p_exec):
    b = rng.choice([0, 1, 1, 2, 2, 3, 3, 4, 5, 6, 7, 8, 8])
    it, zp, colmap = _gen_layout(rng, b)
    case = {"kind": "node", "body": b, "iter": it, "zip": zp, "df": rng.random() < 0.5, "colmap": colmap,
            "cache": rng.random() < 0.8, "entry": rng.choice(["for_node", "for_node", "cls"])}
    if (len(it) == 1 or len(zp) == 1) and rng.random() < (0.6 if b >= 6 else 0.3):
        case["bare_str"] = True
    while True:
        case["steps"] = _gen_steps(rng, b, it, zp, rng.choice([1, 2, 2, 3, 3, 4]))
        if _max_rows(case) <= 36:
            break
    _gen_exec(rng, case, p_exec)
    return case


def _gen_shortcut(rng, p_exec):
    b = rng.choice([0, 1, 2, 3, 4, 5, 6, 7, 8])
    ins, outs, _ = SIG[b]
    labels = [l for l, _ in ins]
    loops = rng.sample(labels, rng.randint(1, len(labels)))
    if rng.random() < 0.05:
        loops.append("nope")
    held = []
    for l, d in ins:
        if l not in loops:
            held.append([l, rng.randint(-2, 9) if (d is None or rng.random() < 0.5) and rng.random() > 0.04 else d])
    colmap = [[o, "out_" + o] for o in outs if o in loops or rng.random() < 0.2]
    case = {"kind": "shortcut", "body": b, "style": rng.choice(["iter", "zip"]), "held": held,
            "loops": [[l, _gen_list(rng, _gen_len(rng, zero_ok=rng.random() < 0.15))] for l in loops],
            "colmap": colmap}
    _gen_exec(rng, case, p_exec)
    return case


def _gen_session(rng):
    """two or three for-nodes made one after the other in one process over a body of the same NAME, the same
    looped fields (mostly spelled as bare strings, labels of more than one character) and the same output form,
    differing in column map / cache flag / the definition of the body -- each is checked against its own
    configuration (for_node's class registry must not hand an earlier node's class to a later one)"""
    b = rng.choice([6, 6, 7, 8, 8, 8, 1, 3])
    it, zp, colmap = _gen_layout(rng, b)
    ins, outs, _ = SIG[b]
    df = rng.random() < 0.5
    bare = [f for f, ks in (("iter", it), ("zip", zp)) if len(ks) == 1 and rng.random() < 0.8]
    base = {"kind": "node", "body": b, "iter": it, "zip": zp, "df": df, "colmap": colmap,
            "cache": rng.random() < 0.7, "entry": rng.choice(["for_node", "for_node", "cls"]), "bare": bare,
            "exec": None}
    nodes = [base]
    for j in range(rng.choice([1, 1, 2])):
        sub = dict(nodes[-1])
        for what in rng.sample(["colmap", "colmap", "cache", "body", "spell", "same"], rng.choice([1, 1, 2])):
            if what == "colmap":
                sub["colmap"] = [[o, rng.choice(["n%d_%s" % (j, o), o.upper() + str(j), "k" + o])]
                                 for o in outs if o in it + zp or rng.random() < 0.8]
            elif what == "cache":
                sub["cache"] = not sub["cache"]
            elif what == "body" and b in (6, 7):
                sub["body"] = 13 - sub["body"]
            elif what == "spell":
                sub["bare"] = [f for f in ("iter", "zip") if len(sub[f]) == 1 and f not in sub["bare"]]
        sub["entry"] = rng.choice(["for_node", "for_node", "cls"])
        nodes.append(sub)
    for sub in nodes:
        while True:
            sub["steps"] = _gen_steps(rng, sub["body"], it, zp, rng.choice([1, 1, 2]))
            if _max_rows(sub) <= 16:
                break
    return {"kind": "session", "nodes": nodes}


def generate(ctx):
    rng = ctx.rng
    cases, seen = [], set()

    def add(c):
        k = json.dumps(c, sort_keys=True)
        if k not in seen:
            seen.add(k)
            cases.append(c)
    for _ in range(ctx.n(450, 5000)):
        add(_gen_maps(rng))
    for _ in range(ctx.n(270, 3500)):
        add(_gen_node(rng, 0.2 if ctx.quick else 0.4))
    for _ in range(ctx.n(40, 500)):
        add(_gen_shortcut(rng, 0.2 if ctx.quick else 0.4))
    for _ in range(ctx.n(60, 700)):
        add(_gen_session(rng))
    for _ in range(ctx.n(40, 500)):
        add(_gen_toggle_node(rng))
    for _ in range(ctx.n(40, 500)):
        add(_gen_array_node(rng))
    return cases


def search(ctx, results, mism):
    """model and implementation disagree but the oracle holds on the quick sample: look harder on the
    implementation side, around the layouts of the disagreeing cases (3x the quick budget)"""
    import random
    rng = random.Random(f"C16-search-{ctx.seed}")
    kinds = {results[i][0]["kind"] for i in mism} or {"maps", "node", "shortcut", "session"}
    out = []
    for _ in range(900):
        k = rng.choice(sorted(kinds))
        out.append(_gen_maps(rng) if k == "maps"
                   else rng.choice([_gen_toggle_node, _gen_array_node, lambda r: _gen_node(r, 0.3)])(rng) if k == "node"
                   else _gen_session(rng) if k == "session" else _gen_shortcut(rng, 0.3))
    return out


def shrink_candidates(case):
    case = _tolist(case)
    if case["kind"] == "maps":
        for i in range(len(case["data"])):
            k, n = case["data"][i]
            if n:
                d = [list(x) for x in case["data"]]
                d[i][1] = n - 1
                yield {**case, "data": d}
        for f in ("nk", "zk"):
            if case[f] and len(case[f]) > 1:
                for i in range(len(case[f])):
                    yield {**case, f: case[f][:i] + case[f][i + 1:]}
        return
    if case["kind"] == "session":
        ns = case["nodes"]
        for j in range(len(ns)):
            if len(ns) > 1:
                yield {**case, "nodes": ns[:j] + ns[j + 1:]}
        for j in range(len(ns)):
            for sub in shrink_candidates(ns[j]):
                yield {**case, "nodes": ns[:j] + [sub] + ns[j + 1:]}
        return
    if case["kind"] != "node":
        return
    if case.get("exec"):
        yield {**case, "exec": None}
    if len(case["steps"]) > 1:
        for i in range(len(case["steps"])):
            if i > 0:
                merged = case["steps"][:i - 1] + [{"set": case["steps"][i - 1]["set"] + case["steps"][i]["set"]}] \
                    + case["steps"][i + 1:]
                yield {**case, "steps": merged}
        yield {**case, "steps": case["steps"][:-1]}
    for si, st in enumerate(case["steps"]):
        if st.get("cache") is not None:
            st2 = {k: v for k, v in st.items() if k != "cache"}
            yield {**case, "steps": case["steps"][:si] + [st2] + case["steps"][si + 1:]}
        for vi, (l, v) in enumerate(st["set"]):
            if isinstance(v, dict) and len(v["arr"]) > 0:
                st2 = {**st, "set": st["set"][:vi] + [[l, {"arr": v["arr"][:-1]}]] + st["set"][vi + 1:]}
                yield {**case, "steps": case["steps"][:si] + [st2] + case["steps"][si + 1:]}
            if isinstance(v, list) and len(v) > 0:
                st2 = {**st, "set": st["set"][:vi] + [[l, v[:-1]]] + st["set"][vi + 1:]}
                yield {**case, "steps": case["steps"][:si] + [st2] + case["steps"][si + 1:]}
    if case["colmap"]:
        for i in range(len(case["colmap"])):
            yield {**case, "colmap": case["colmap"][:i] + case["colmap"][i + 1:]}


def distribution(results):
    d = {"maps": 0, "node": 0, "shortcut": 0, "session": 0, "session_nodes": 0, "bare_spelling": 0, "runs_ok": 0, "runs_exc": 0, "rerun_len_change": 0, "cache_hits": 0,
         "exec_ordered": 0, "exec_pool": 0, "df": 0, "lists": 0, "with_colmap": 0, "rows_hist": {}, "exc": {}}
    flat = []
    for c, enc, v, o in results:
        d[c["kind"]] += 1
        if c["kind"] == "session":        # counted node by node
            d["session_nodes"] += len(c["nodes"])
            if isinstance(o, list) and len(o) == len(c["nodes"]):
                flat += [(sub, None, v, so[1]) for sub, so in zip(c["nodes"], o) if isinstance(so, list) and len(so) == 2]
        else:
            flat.append((c, enc, v, o))
    for c, enc, v, o in flat:
        if c["kind"] == "maps":
            if isinstance(o, list) and o and o[0] == "exc":
                d["exc"][o[1]] = d["exc"].get(o[1], 0) + 1
            continue
        if c["kind"] == "node" and (_bare(c, "iter") or _bare(c, "zip")):
            d["bare_spelling"] += 1
        if c.get("exec") == "ordered":
            d["exec_ordered"] += 1
        elif c.get("exec") == "pool":
            d["exec_pool"] += 1
        if c["kind"] == "node":
            d["df" if c["df"] else "lists"] += 1
            if c["colmap"]:
                d["with_colmap"] += 1
        runs = [o] if c["kind"] == "shortcut" else (o[1:] if isinstance(o, list) else [])
        oks = 0
        for r in runs:
            if not isinstance(r, list) or not r:
                continue
            if r[0] == "ok":
                d["runs_ok"] += 1
                oks += 1
                if r[3] == []:
                    d["cache_hits"] += 1
                if r[1] != ["notdata"] and r[1][1]:
                    n = len(r[1][1]) if c.get("df", True) else len(r[1][1][0])
                    d["rows_hist"][str(n)] = d["rows_hist"].get(str(n), 0) + 1
            elif r[0] == "exc":
                d["runs_exc"] += 1
                d["exc"][r[1]] = d["exc"].get(r[1], 0) + 1
        if oks >= 2:
            d["rerun_len_change"] += 1
    return d
