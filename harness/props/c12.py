"""C12 -- connections stay mutual, well-typed and duplicate-free under any editing history.

Model: coq/theories/Chan.v (hand-written mirror of channels.py / io.py / composite.py /
topology.py / node.run_data_tree as far as connection lists go); theorems in Props/C12.v.

A case = a small universe (function nodes of fixed kinds, some inside workflows) + a history
of editing ops.  Every op is executed on REAL pyiron_workflow objects; after every op the
ordered connection list of every channel is read back.  The observation is delta-coded to
keep the Coq literals small:

  obs = [per op: [outcome, labels, tree, delta, flag]]
    outcome : 0 ok | 1 TypeError | 2 ChannelConnectionError | 3 ValueError | 4 AttributeError |
              5 KeyError | 6 ConnectionCopyError | 7 ValueCopyError | 8 CircularDataFlowError |
              9 AmbiguousOutputError | "<class name>" for anything else
    labels  : [] if no node label changed, else the rank (a=0, b=1...) of every node's label
    tree    : [] if no parent / children list changed, else [[parent of every node: 0 none, w+1],
              [children of every workflow, in `children` order]]
    delta   : [[cid, p1, p2, ...]] for every channel whose list changed (cid = position of the channel
              in the universe: nodes in order, each inputs, outputs, run, accumulate_and_run, ran, failed);
              a partner p is 32 * rank(owner label) + index(channel label in LABELS), i.e. the pair
              (owner label, channel label)
    flag    : partners that are no channel of the universe + strict typed data connections the
              real type_hint_is_as_or_more_specific_than rejects (counted on the real objects)

Python *set* iteration orders the library depends on (get_nodes_in_data_tree; the upstream
set in _set_run_connections_according_to_dag) are id()-dependent: they are read back from
the implementation and handed to the model as inputs of the op (the theorems quantify over them).
"""
import json
import signal

from harness import lib
from harness.lib import cb, cl, cn

from pyiron_workflow.channels import NOT_DATA

PROP = "C12"
IMPORTS = "Base Chan"
RULE = ("histories of 8-60 editing ops (connect by method/assignment/call keyword/>>/<<, disconnect at "
        "channel/panel/node level, copy_connections, copy_io, remove child by node/label, parent = None, parent = another composite, add/replace child, wire dag, run, pull) "
        "over 3-7 function nodes of 7 kinds (typed int/str/bool/int|str/untyped, strict and loose inputs, one "
        "two-output kind) in 1-2 workflows or parentless; operands biased to conjugate pairs and to existing "
        "connections, ~15% malformed; non-trivial = >=3 connections alive at some point and >=1 refused or "
        "removing op; distinct = distinct (universe, op list)")
TRUSTED = ["harness/props/c12.py driver: op -> library call mapping, delta coding of the snapshots",
           "set iteration orders (id-dependent) are read back from the implementation and given to the model"]
ASSUMPTIONS = ["function nodes only (no macros: value_receiver links are not connections, DESIGN S22); workflow-level "
               "signal channels stay unconnected; no executors; node functions never fail; hint tags int/str/bool/int|str",
               "values are not modelled: whether copy_io(values_fail_hard=True) raised is read back from the implementation"]

LABELS = ["x", "y", "z", "out", "aux", "run", "accumulate_and_run", "ran", "failed", "q", "free"]
LIDX = {s: i for i, s in enumerate(LABELS)}
EXC = {"TypeError": 1, "ChannelConnectionError": 2, "ValueError": 3, "AttributeError": 4, "KeyError": 5,
       "ConnectionCopyError": 6, "ValueCopyError": 7, "CircularDataFlowError": 8, "AmbiguousOutputError": 9}
EXC_INV = {v: k for k, v in EXC.items()}
EXN_COQ = {1: "TypeErr", 2: "ConnErr", 3: "ValueErr", 4: "AttrErr", 5: "KeyErr", 6: "ConnCopyErr",
           7: "ValueCopyErr", 8: "CircErr", 9: "AmbigErr"}


# ---- node functions (module level: the library reads their source) ----------------------
def k0(x: int = 0, y: int = 0) -> int:
    out = 1
    return out


def k1(x: int = 0, y: str = "a") -> bool:
    out = True
    return out


def k2(x=None, y: bool = True) -> str:
    out = "a"
    return out


def k3(x: str = "a"):
    # the only untyped output: it never holds data and no other kind has an output of this label, so
    # copy_io cannot park a foreign value in it (a str fetched by a strict int input would fail the run)
    free = NOT_DATA
    return free


def k4(x: int = 0, y: bool = True, z=None) -> tuple[int, str]:
    out = 1
    aux = "a"
    return out, aux


def k5(x: int | str = 0, y: int | str = "a") -> int | str:
    out = 1
    return out


def k6(x: bool = True, y: int = 0, z: str = "a") -> bool:
    out = True
    return out


KFUN = [k0, k1, k2, k3, k4, k5, k6]
HTAG = {int: "HInt", str: "HStr", bool: "HBool", (int | str): "HIntStr"}
_KIND_IO = {}


_KCLS = {}


def _mknode(kind, label):
    if kind not in _KCLS:          # one node class per kind (the source is scraped once)
        from pyiron_workflow.nodes.function import as_function_node
        _KCLS[kind] = as_function_node()(KFUN[kind])
    n = _KCLS[kind](label=label)
    n.recovery = None
    return n


def kind_io(kind):
    """static description of a kind's channels, read off a real instance:
    [(label idx, flavor, dir, hint tag | None, acc)] in _owned_io_panels order"""
    if kind not in _KIND_IO:
        from pyiron_workflow.channels import AccumulatingInputSignal
        n = _mknode(kind, "probe")
        out = []
        for pi, panel in enumerate(n._owned_io_panels):
            for ch in panel:
                fl = "Data" if pi < 2 else "Signal"
                d = "DIn" if pi in (0, 2) else "DOut"
                hint = HTAG[ch.type_hint] if pi < 2 and ch.type_hint is not None else None
                out.append((LIDX[ch.label], fl, d, hint, isinstance(ch, AccumulatingInputSignal)))
        _KIND_IO[kind] = out
    return _KIND_IO[kind]


def statics(case):
    """[(owner, label idx, flavor, dir, hint, strict, acc)] for every channel id"""
    out = []
    for i, (kind, loose, _wf) in enumerate(case["nodes"]):
        for (l, fl, d, hint, acc) in kind_io(kind):
            strict = not (fl == "Data" and d == "DIn" and l in loose)
            out.append((i, l, fl, d, hint, strict, acc))
    return out


# ---- the real universe ------------------------------------------------------------------
_TREE_LOG = []
OP_TIME_LIMIT = 1.0      # CPU seconds (20 s wall as a backstop); a library call that does not return is an
#                          outcome ("Timeout"), not a hang of the check.  Ordinary ops take < 50 ms.


class _Timeout(BaseException):      # not an Exception: the library's `except Exception` must not swallow it
    pass


def _on_alarm(signum, frame):
    raise _Timeout()


def _install_tree_hook():
    import pyiron_workflow.node as N
    if getattr(N.get_nodes_in_data_tree, "_c12_wrapped", False):
        return
    orig = N.get_nodes_in_data_tree

    def wrapped(node):
        r = orig(node)
        _TREE_LOG.append((node, list(r)))     # iteration order of the very set the caller will use
        return r
    wrapped._c12_wrapped = True
    N.get_nodes_in_data_tree = wrapped


class Universe:
    def __init__(self, case):
        from pyiron_workflow.workflow import Workflow
        _install_tree_hook()
        self.case = case
        self.nodes = [_mknode(kind, "n" + chr(97 + i)) for i, (kind, _l, _w) in enumerate(case["nodes"])]
        self.wfs = []
        for j in range(case["nwf"]):
            w = Workflow("w" + chr(97 + j), autoload=None)
            w.recovery = None
            self.wfs.append(w)
        self.chan = []
        self.cid = {}
        self.node_idx = {}
        for i, n in enumerate(self.nodes):
            self.node_idx[id(n)] = i
            for l in case["nodes"][i][1]:
                n.inputs[LABELS[l]].strict_hints = False
            for panel in n._owned_io_panels:
                for ch in panel:
                    self.cid[id(ch)] = len(self.chan)
                    self.chan.append(ch)
        for i, (_k, _l, w) in enumerate(case["nodes"]):
            if w is not None and w >= 0:
                self.wfs[w].add_child(self.nodes[i])
        self.st = statics(case)

    def panel_of(self, c):
        _o, _l, fl, d, _h, _s, _a = self.st[c]
        n = self.chan[c].owner
        if fl == "Data":
            return n.inputs if d == "DIn" else n.outputs
        return n.signals.input if d == "DIn" else n.signals.output

    def src(self, v):
        return self.chan[v[1]] if v[0] == "c" else self.nodes[v[1]]

    def labels(self):
        out = []
        for n in self.nodes:
            s = n.label
            out.append(ord(s[1]) - 97 if len(s) == 2 and s[0] == "n" and "a" <= s[1] <= "z" else -1)
        return out

    def tree(self):
        wfi = {id(w): j for j, w in enumerate(self.wfs)}
        parents = [0 if n.parent is None else wfi.get(id(n.parent), -2) + 1 for n in self.nodes]
        kids = [[self.node_idx.get(id(c), -1) for c in w.children.values()] for w in self.wfs]
        return [parents, kids]

    def snapshot(self):
        """(lists of partner codes per cid, number of foreign / ill-typed partners)"""
        from pyiron_workflow.type_hinting import type_hint_is_as_or_more_specific_than as more_specific
        lists, bad = [], 0
        labels = self.labels()
        for c, ch in enumerate(self.chan):
            row = []
            for p in ch.connections:
                pc = self.cid.get(id(p))
                if pc is None:
                    bad += 1
                    row.append(-1)
                    continue
                row.append(32 * labels[self.st[pc][0]] + self.st[pc][1])
                _o, _l, fl, d, hint, strict, _a = self.st[c]
                if fl == "Data" and d == "DIn" and ch.strict_hints and ch.type_hint is not None \
                        and getattr(p, "type_hint", None) is not None \
                        and not more_specific(p.type_hint, ch.type_hint):
                    bad += 1
            lists.append(row)
        for w in self.wfs:     # workflow-level signal channels are outside the universe: must stay empty
            for panel in (w.signals.input, w.signals.output):
                for ch in panel:
                    bad += len(ch.connections)
        return lists, bad

    def apply(self, op):
        k = op[0]
        ch, nd, wf = self.chan, self.nodes, self.wfs
        if k == "connect":
            ch[op[1]].connect(*[ch[b] for b in op[2]])
        elif k == "disconnect":
            ch[op[1]].disconnect(*[ch[b] for b in op[2]])
        elif k == "disconnect_all":
            ch[op[1]].disconnect_all()
        elif k == "copy_conns":
            ch[op[1]].copy_connections(ch[op[2]])
        elif k == "assign":
            self.panel_of(op[1])[LABELS[self.st[op[1]][1]]] = self.src(op[2])
        elif k == "set_inputs":
            nd[op[1]].set_input_values(**{LABELS[l]: self.src(v) for l, v in op[2]})
        elif k == "call":
            nd[op[1]](**{LABELS[l]: self.src(v) for l, v in op[2]})
        elif k == "rshift":
            self.src(op[1]) >> self.src(op[2])
        elif k == "lshift":
            others = [self.src(v) for v in op[2]]
            self.src(op[1]) << (others[0] if len(others) == 1 and not op[3] else tuple(others))
        elif k == "panel_disconnect":
            n = nd[op[1]]
            [n.inputs.disconnect, n.outputs.disconnect, n.signals.input.disconnect, n.signals.output.disconnect,
             n.signals.disconnect, n.signals.disconnect_run][op[2]]()
        elif k == "node_disconnect":
            nd[op[1]].disconnect()
        elif k == "copy_io":
            nd[op[1]].copy_io(nd[op[2]], connections_fail_hard=op[3], values_fail_hard=op[4])
        elif k == "remove":
            wf[op[1]].remove_child(nd[op[2]])
        elif k == "add":
            if len(op) > 3 and op[3]:
                setattr(wf[op[1]], nd[op[2]].label, nd[op[2]])      # Composite.__setattr__ -> add_child(label=key)
            else:
                wf[op[1]].add_child(nd[op[2]])
        elif k == "remove_label":
            wf[op[1]].remove_child(nd[op[2]].label)
        elif k == "set_parent":
            nd[op[1]].parent = None if op[2] is None or op[2] < 0 else wf[op[2]]
        elif k == "replace":
            wf[op[1]].replace_child(nd[op[2]], nd[op[3]])
        elif k == "wire_dag":
            wf[op[1]].set_run_signals_to_dag_execution()
        elif k == "run_wf":
            wf[op[1]].run()
        elif k == "wf_disconnect_run":
            wf[op[1]].disconnect_run()
        elif k == "pull":
            nd[op[1]].pull()
        else:
            raise ValueError(f"unknown op {op!r}")

    def step(self, op):
        """-> (outcome code, read-back for the model)"""
        k = op[0]
        del _TREE_LOG[:]
        kids_before = [self.node_idx[id(c)] for c in self.wfs[op[1]].children.values()] \
            if k in ("wire_dag", "run_wf") else None
        def timers(cpu, wall, again):
            signal.setitimer(signal.ITIMER_VIRTUAL, cpu, again)     # keeps firing through `finally` blocks
            signal.setitimer(signal.ITIMER_REAL, wall, again)
        old = signal.signal(signal.SIGALRM, _on_alarm), signal.signal(signal.SIGVTALRM, _on_alarm)
        timers(OP_TIME_LIMIT, 20.0, 0.2)
        try:
            try:
                self.apply(op)
                code = 0
            except Exception as e:      # noqa: BLE001 -- every library exception is an outcome
                code = EXC.get(type(e).__name__, type(e).__name__)
            finally:
                timers(0, 0, 0)
        except _Timeout:
            timers(0, 0, 0)
            code = "Timeout"
        finally:
            timers(0, 0, 0)
            signal.signal(signal.SIGALRM, old[0])
            signal.signal(signal.SIGVTALRM, old[1])
        if code == "Timeout":
            del _TREE_LOG[:]
            return code, None
        rb = None
        if k in ("pull", "call"):
            rb = []
            for root, order in _TREE_LOG:
                if root is self.nodes[op[1]]:
                    rb = [self.node_idx[id(n)] for n in order if id(n) in self.node_idx]
        elif k in ("wire_dag", "run_wf"):
            rb = []
            for i in kids_before:
                acc = self.nodes[i].signals.input.accumulate_and_run
                rb.append([self.node_idx[id(p.owner)] for p in reversed(acc.connections)
                           if id(p.owner) in self.node_idx])
        elif k == "copy_io":
            rb = code == EXC["ValueCopyError"]
        del _TREE_LOG[:]
        return code, rb


_RB = {}


def _case_key(case):
    return json.dumps([case["nodes"], case["nwf"], case["ops"]], sort_keys=True)


HTAGS = [("HInt", int), ("HStr", str), ("HBool", bool), ("HIntStr", int | str)]


def run_impl(case):
    if case.get("compat"):       # the model's hint table against the real comparison
        from pyiron_workflow.type_hinting import type_hint_is_as_or_more_specific_than as more_specific
        return [int(bool(more_specific(ho, hi))) for _o, ho in HTAGS for _i, hi in HTAGS]
    u = Universe(case)
    prev, _ = u.snapshot()
    prev_labels = u.labels()
    prev_tree = u.tree()
    obs, rbs = [], []
    dead = False
    for op in case["ops"]:
        if dead:                       # the universe is unusable after a call that never returned
            obs.append(["skipped", [], [], [], 0])
            rbs.append(None)
            continue
        code, rb = u.step(op)
        rbs.append(rb)
        if code == "Timeout":
            dead = True
            obs.append([code, [], [], [], 0])
            continue
        cur, bad = u.snapshot()
        labels = u.labels()
        tree = u.tree()
        delta = [[c] + cur[c] for c in range(len(cur)) if cur[c] != prev[c]]
        obs.append([code, [] if labels == prev_labels else labels, [] if tree == prev_tree else tree, delta, bad])
        prev, prev_labels, prev_tree = cur, labels, tree
    _RB[id(case)] = (_case_key(case), rbs)
    return obs


def readbacks(case):
    hit = _RB.get(id(case))
    if hit is None or hit[0] != _case_key(case):
        run_impl(case)
        hit = _RB[id(case)]
    return hit[1]


# ---- the model term ------------------------------------------------------------------------
def _cln(xs):
    return cl(cn(x) for x in xs)


def _src(v):
    return f"(SChan {cn(v[1])})" if v[0] == "c" else f"(SNode {cn(v[1])})"


def _kw(kw):
    return cl(f"({cn(l)}, {_src(v)})" for l, v in kw)


PANELS = ["PIn", "POut", "PSigIn", "PSigOut", "PSignals", "PRun"]


def op_coq(op, rb):
    k = op[0]
    if k == "connect":
        return f"OConnect {cn(op[1])} {_cln(op[2])}"
    if k == "disconnect":
        return f"ODisconnect {cn(op[1])} {_cln(op[2])}"
    if k == "disconnect_all":
        return f"ODisconnectAll {cn(op[1])}"
    if k == "copy_conns":
        return f"OCopyConns {cn(op[1])} {cn(op[2])}"
    if k == "assign":
        return f"OAssign {cn(op[1])} {_src(op[2])}"
    if k == "set_inputs":
        return f"OSetInputs {cn(op[1])} {_kw(op[2])}"
    if k == "call":
        return f"OCall {cn(op[1])} {_kw(op[2])} {_cln(rb or [])}"
    if k == "rshift":
        return f"ORshift {_src(op[1])} {_src(op[2])}"
    if k == "lshift":
        return f"OLshift {_src(op[1])} {cl(_src(v) for v in op[2])}"
    if k == "panel_disconnect":
        return f"OPanelDisconnect {cn(op[1])} {PANELS[op[2]]}"
    if k == "node_disconnect":
        return f"ONodeDisconnect {cn(op[1])}"
    if k == "copy_io":
        return f"OCopyIO {cn(op[1])} {cn(op[2])} {cb(op[3])} {cb(op[4])} {cb(bool(rb))}"
    if k == "remove":
        return f"ORemove {cn(op[1])} {cn(op[2])}"
    if k == "add":
        return f"OAdd {cn(op[1])} {cn(op[2])}"
    if k == "replace":
        return f"OReplace {cn(op[1])} {cn(op[2])} {cn(op[3])}"
    if k == "wire_dag":
        return f"OWireDag {cn(op[1])} {cl(_cln(o) for o in (rb or []))}"
    if k == "run_wf":
        return f"ORunWf {cn(op[1])} {cl(_cln(o) for o in (rb or []))}"
    if k == "wf_disconnect_run":
        return f"OWfDisconnectRun {cn(op[1])}"
    if k == "pull":
        return f"OPull {cn(op[1])} {_cln(rb or [])}"
    if k == "remove_label":
        return f"ORemoveLabel {cn(op[1])} {cn(op[2])}"
    if k == "set_parent":
        return f"OSetParent {cn(op[1])} " + ("None" if op[2] is None or op[2] < 0 else f"(Some {cn(op[2])})")
    raise ValueError(op)


def world_coq(case):
    rows = []
    for (o, l, fl, d, hint, strict, acc) in statics(case):
        h = "None" if hint is None else f"(Some {hint})"
        rows.append(f"mkc {cn(o)} {cn(l)} {fl} {d} {h} {cb(strict)} {cb(acc)}")
    return cl(rows)


def model_term(case):
    if case.get("compat"):
        return "OL " + cl(f"ob (compat {o} {i})" for o, _ho in HTAGS for i, _hi in HTAGS)
    rbs = readbacks(case)
    nn = len(case["nodes"])
    par = cl("None" if (w is None or w < 0) else f"(Some {cn(w)})" for (_k, _l, w) in case["nodes"])
    kids = cl(_cln([i for i, (_k, _l, w) in enumerate(case["nodes"]) if w == j]) for j in range(case["nwf"]))
    lab = _cln(range(nn))
    ops = cl("(" + op_coq(op, rb) + ")" for op, rb in zip(case["ops"], rbs))
    return f"run_case {world_coq(case)} {par} {kids} {lab} {ops}"


# ---- the property, checked on the implementation's observation ------------------------------
SINGLE_CONNECT = ("assign", "rshift")


def _is_single_connect(op):
    k = op[0]
    return k in SINGLE_CONNECT or (k in ("connect", "lshift", "set_inputs") and len(op[2]) == 1)


def oracle(case, obs):
    if case.get("compat"):
        return None
    st = statics(case)
    nn = len(case["nodes"])
    chans_of = {i: [c for c, s in enumerate(st) if s[0] == i] for i in range(nn)}
    by_node_label = {(s[0], s[1]): c for c, s in enumerate(st)}
    cur = [[] for _ in st]
    labels = list(range(nn))
    parents = [0 if (w is None or w < 0) else w + 1 for (_k, _l, w) in case["nodes"]]
    if not isinstance(obs, list) or len(obs) != len(case["ops"]):
        return f"shape: {len(case['ops'])} ops but observation {str(obs)[:80]}"
    for t, (op, ob) in enumerate(zip(case["ops"], obs)):
        code, newlab, newtree, delta, bad = ob
        prev = [list(r) for r in cur]
        prev_labels = list(labels)
        prev_parents = list(parents)
        if newlab:
            labels = list(newlab)
        if newtree:
            parents = list(newtree[0])
        for row in delta:
            cur[row[0]] = list(row[1:])
        where = f"after op {t} {op[0]}"
        if code == "Timeout":
            return f"hang: {where}: the call did not return within {OP_TIME_LIMIT} s"
        if not isinstance(code, int):
            return f"unexpected-exception: {where} raised {code}"
        if bad:
            return f"ill-typed-or-foreign: {where}: {bad} partner(s) outside the universe or rejected by the hint test"
        if sorted(labels) != list(range(nn)):
            return f"labels: {where}: node labels {labels} are not a permutation"
        node_of_rank = {r: i for i, r in enumerate(labels)}

        def resolve(p):
            i = node_of_rank.get(p // 32)
            return None if i is None else by_node_label.get((i, p % 32))

        def code_of(c):
            return 32 * labels[st[c][0]] + st[c][1]
        for a, row in enumerate(cur):
            if len(set(row)) != len(row):
                return f"duplicate: {where}: channel {a} lists a partner twice: {row}"
            for p in row:
                b = resolve(p)
                if b is None:
                    return f"foreign: {where}: channel {a} lists an unknown partner {p}"
                if st[a][2] != st[b][2] or st[a][3] == st[b][3]:
                    return (f"not-conjugate: {where}: channel {a} ({st[a][2]},{st[a][3]}) is connected to "
                            f"channel {b} ({st[b][2]},{st[b][3]})")
                if code_of(a) not in cur[b]:
                    return f"not-mutual: {where}: channel {a} lists channel {b} but {b} does not list {a}"
        k = op[0]
        changed = cur != prev or labels != prev_labels or parents != prev_parents
        if code != 0 and _is_single_connect(op) and changed:
            return f"refused-changed: {where}: the refused connection ({EXC_INV.get(code, code)}) changed the store"
        if k == "call" and len(op[2]) == 1 and code in (1, 2, 4, 9) and changed:   # C12_refused_call_noop
            return f"refused-changed: {where}: the refused call keyword ({EXC_INV.get(code, code)}) changed the store"
        if (code != 0 and k in ("connect", "lshift", "set_inputs") and len(op[2]) > 1) or \
                (k == "call" and len(op[2]) > 1 and code in (1, 2, 4, 9)):
            # a refused connection changes nothing: only connections accepted before it may be new
            for a in range(len(cur)):
                extra = len(cur[a]) - len(prev[a])
                if extra < 0 or cur[a][extra:] != prev[a]:
                    return f"refused-changed: {where}: channel {a} lost or reordered partners: {prev[a]} -> {cur[a]}"
        if code != 0 and k in ("copy_conns", "copy_io", "replace"):
            # the documented promise of the undo logs (C12_failed_copy_adds_nothing)
            for a in range(len(cur)):
                extra = [p for p in cur[a] if p not in prev[a]]
                if extra:
                    return (f"copy-residue: {where}: the copy failed ({EXC_INV.get(code, code)}) but channel {a} "
                            f"keeps new partner(s) {extra}")
        if k == "connect" and len(op[2]) == 1 and code == 0:
            a, b = op[1], op[2][0]
            exp = [list(r) for r in prev]
            if code_of(b) not in prev[a]:
                exp[a] = [code_of(b)] + exp[a]
                exp[b] = [code_of(a)] + exp[b]
            if cur != exp:
                return f"connect-effect: {where}: an accepted connect must prepend each side to the other and nothing else"
        if k == "disconnect":
            a = op[1]
            exp = [list(r) for r in prev]
            for b in op[2]:
                if code_of(b) in exp[a]:
                    exp[a].remove(code_of(b))
                    if code_of(a) in exp[b]:
                        exp[b].remove(code_of(a))
            if cur != exp or code != 0:
                what = "unconnected channels changed the store" if exp == prev else "did not remove exactly the named pairs"
                return f"disconnect-effect: {where}: disconnect of {what}"
        if k == "disconnect_all" and (code != 0 or (not prev[op[1]] and changed)):
            return f"disconnect-effect: {where}: disconnect_all of an unconnected channel changed the store"
        if k in ("node_disconnect", "panel_disconnect") and code == 0:
            mine = chans_of[op[1]]
            if k == "node_disconnect" and all(not prev[c] for c in mine) and changed:
                return f"disconnect-effect: {where}: disconnecting an unconnected node changed the store"
        gone = [n for n in range(nn) if prev_parents[n] > 0 and parents[n] != prev_parents[n]]
        if code == 0 and k in ("remove", "node_disconnect", "replace"):
            gone.append(op[2] if k in ("remove", "replace") else op[1])
        for n in gone:      # by ANY route: whoever left its composite (or was disconnected) is unreferenced
            for c in chans_of[n]:
                if cur[c]:
                    return (f"still-connected: {where}: channel {c} of node {n}, which left its composite / was "
                            f"disconnected, still lists {cur[c]}")
            for a, row in enumerate(cur):
                for p in row:
                    if p // 32 == labels[n]:
                        return (f"dangling: {where}: channel {a} still points at node {n}, which left its "
                                f"composite / was disconnected")
    return None


def known(case, obs, verdict):
    return None


def nontrivial(case, obs):
    if case.get("compat"):
        return False
    alive, peak, refused, removed = 0, 0, 0, 0
    sizes = {}
    for op, ob in zip(case["ops"], obs):
        if not isinstance(ob, list):
            return False
        for row in ob[3]:
            if len(row) - 1 < sizes.get(row[0], 0):
                removed += 1
            sizes[row[0]] = len(row) - 1
        peak = max(peak, sum(sizes.values()) // 2)
        refused += ob[0] != 0
    return peak >= 3 and (refused + removed) >= 1


def key(case):
    return [case["nodes"], case["nwf"], case["ops"], bool(case.get("compat"))]


def shrink_candidates(case):
    if case.get("compat"):
        return
    ops = case["ops"]
    for i in reversed(range(len(ops))):
        yield {"nodes": case["nodes"], "nwf": case["nwf"], "ops": ops[:i] + ops[i + 1:]}
    for i, op in enumerate(ops):
        if op[0] in ("connect", "disconnect", "lshift", "set_inputs", "call") and len(op[2]) > 1:
            for j in range(len(op[2])):
                op2 = list(op)
                op2[2] = op[2][:j] + op[2][j + 1:]
                yield {"nodes": case["nodes"], "nwf": case["nwf"], "ops": ops[:i] + [op2] + ops[i + 1:]}


def distribution(results):
    kinds, outcomes, nodes, lens = {}, {}, {}, {}
    for c, enc, v, o in results:
        if c.get("compat"):
            continue
        nodes[len(c["nodes"])] = nodes.get(len(c["nodes"]), 0) + 1
        b = min(len(c["ops"]) // 10 * 10, 60)
        lens[b] = lens.get(b, 0) + 1
        for op, ob in zip(c["ops"], o if isinstance(o, list) else []):
            kinds[op[0]] = kinds.get(op[0], 0) + 1
            if isinstance(ob, list):
                name = "ok" if ob[0] == 0 else EXC_INV.get(ob[0], str(ob[0]))
                outcomes[name] = outcomes.get(name, 0) + 1
    return {"op_kinds": kinds, "outcomes": outcomes, "universe_sizes": nodes, "history_lengths": lens}


# ---- generation (operands are chosen looking at the real state) ------------------------------
WEIGHTS = [("connect", 16), ("assign", 9), ("set_inputs", 5), ("call", 4), ("rshift", 6), ("lshift", 5),
           ("disconnect", 9), ("disconnect_all", 4), ("copy_conns", 7), ("panel_disconnect", 3),
           ("node_disconnect", 3), ("copy_io", 6), ("remove", 3), ("remove_label", 2), ("set_parent", 5), ("add", 4), ("replace", 5),
           ("wire_dag", 2), ("run_wf", 3), ("wf_disconnect_run", 1), ("pull", 5)]


def _gen_universe(rng, nmin, nmax):
    nn = rng.randint(nmin, nmax)
    nwf = rng.choice([1, 2, 2])
    nodes = []
    cohesive = rng.random() < 0.5          # most nodes siblings: pulls and wirings succeed more often
    for _ in range(nn):
        kind = rng.choice([0, 0, 1, 2, 3, 4, 5, 6, 0, 1])
        ins = [l for (l, fl, d, _h, _a) in kind_io(kind) if fl == "Data" and d == "DIn"]
        loose = sorted(l for l in ins if rng.random() < 0.15)
        wf = rng.choice([0] * 8 + [1] + [-1] * 2) if cohesive else rng.choice([0] * 5 + [1] * 2 + [-1] * 4)
        nodes.append([kind, loose, wf if wf < nwf else 0])
    return {"nodes": nodes, "nwf": nwf, "ops": []}


def _gen_op(rng, u):
    st, nn, nwf = u.st, len(u.nodes), len(u.wfs)
    ins = [c for c, s in enumerate(st) if s[3] == "DIn"]
    outs = [c for c, s in enumerate(st) if s[3] == "DOut"]
    allc = list(range(len(st)))
    connected = [(a, u.cid[id(p)]) for a, ch in enumerate(u.chan) for p in ch.connections if id(p) in u.cid]

    def partner_for(a):
        cands = [b for b in allc if st[b][2] == st[a][2] and st[b][3] != st[a][3]]
        away = [b for b in cands if st[b][0] != st[a][0]]
        return rng.choice(away if away and rng.random() < 0.9 else cands)

    def conj_pair():
        a = rng.choice(ins if rng.random() < 0.8 else outs)
        if st[a][2] == "Signal" and rng.random() < 0.4:      # keep data connections frequent
            a = rng.choice([c for c in ins if st[c][2] == "Data"])
        return a, partner_for(a)

    def any_src(flavor_dir=None):
        if rng.random() < 0.35:
            return ["n", rng.randrange(nn)]
        pool = [c for c in allc if flavor_dir is None or (st[c][2], st[c][3]) == flavor_dir]
        return ["c", rng.choice(pool)]

    k = rng.choices([w[0] for w in WEIGHTS], [w[1] for w in WEIGHTS])[0]
    if k == "connect":
        if rng.random() < 0.85:
            a, b = conj_pair()
            bs = [b]
            while rng.random() < 0.25:
                bs.append(partner_for(a) if rng.random() < 0.8 else rng.choice(allc))
        else:
            a, bs = rng.choice(allc), [rng.choice(allc)]
        return [k, a, bs]
    if k == "assign":
        if rng.random() < 0.85:
            a, b = conj_pair()
            v = ["c", b]
            if st[b][2] == "Data" and st[b][3] == "DOut" and rng.random() < 0.4:
                v = ["n", st[b][0]]
        else:
            a, v = rng.choice(allc), any_src()
        return [k, a, v]
    if k in ("set_inputs", "call"):
        n = rng.randrange(nn)
        keys = [s[1] for s in st if s[0] == n and s[2] == "Data" and s[3] == "DIn"]
        rng.shuffle(keys)
        keys = keys[:rng.choice([0, 1, 1, 1, 2, 2, 3])] if k == "call" else keys[:rng.choice([1, 1, 2, 3])]
        kw = []
        for l in keys:
            r = rng.random()
            if r < 0.5:
                v = ["c", rng.choice([c for c in outs if st[c][2] == "Data"])]
            elif r < 0.85:
                v = ["n", rng.randrange(nn)]
            else:
                v = ["c", rng.choice([c for c in allc if not (st[c][2] == "Data" and st[c][3] == "DOut")])]
            kw.append([l, v])
        if rng.random() < 0.07:
            kw.append([LIDX["q"], ["n", rng.randrange(nn)]])
        return [k, n, kw]
    if k == "rshift":
        r = rng.random()
        left = ["n", rng.randrange(nn)] if r < 0.6 else ["c", rng.choice([c for c in allc if st[c][2] == "Signal"
                                                                  and (st[c][3] == "DOut" or rng.random() < 0.1)])]
        r = rng.random()
        if r < 0.6:
            right = ["n", rng.randrange(nn)]
        elif r < 0.92:
            right = ["c", rng.choice([c for c in ins if st[c][2] == "Signal"])]
        else:   # malformed right operands; never an output *data* channel (attribute access injects nodes)
            right = ["c", rng.choice([c for c in allc if not (st[c][2] == "Data" and st[c][3] == "DOut")])]
        return [k, left, right]
    if k == "lshift":
        r = rng.random()
        if r < 0.6:
            t = ["n", rng.randrange(nn)]
        elif r < 0.92:
            t = ["c", rng.choice([c for c in allc if st[c][6]])]
        else:
            t = ["c", rng.choice([c for c in allc if st[c][2] == "Signal"])]
        ss = []
        for _ in range(rng.choice([1, 1, 2, 2, 3])):
            r = rng.random()
            if r < 0.55:
                ss.append(["n", rng.randrange(nn)])
            elif r < 0.93:
                ss.append(["c", rng.choice([c for c in outs if st[c][2] == "Signal"])])
            else:
                ss.append(["c", rng.choice([c for c in allc if not (st[c][2] == "Data" and st[c][3] == "DOut")])])
        return [k, t, ss, rng.random() < 0.5]
    if k == "disconnect":
        if connected and rng.random() < 0.7:
            a, b = rng.choice(connected)
            bs = [b]
            while rng.random() < 0.3:
                bs.append(rng.choice([q for (p, q) in connected if p == a] + [rng.choice(allc)]))
        else:
            a, bs = rng.choice(allc), [rng.choice(allc)]
        return [k, a, bs]
    if k == "disconnect_all":
        return [k, rng.choice(connected)[0] if connected and rng.random() < 0.75 else rng.choice(allc)]
    if k == "copy_conns":
        if rng.random() < 0.3:     # a channel that already shares a partner with a busier one (the undo path)
            part = {}
            for a, b in connected:
                part.setdefault(a, set()).add(b)
            shared = [(a, o) for a in part for o in part if a != o and (st[a][2], st[a][3]) == (st[o][2], st[o][3])
                      and part[a] & part[o] and len(part[o]) >= 2]
            if shared:
                a, o = rng.choice(sorted(shared))
                return [k, a, o]
        busy = sorted({a for a, _ in connected})
        o = rng.choice(busy) if busy and rng.random() < 0.85 else rng.choice(allc)
        same = [c for c in allc if (st[c][2], st[c][3]) == (st[o][2], st[o][3])]
        a = rng.choice(same) if rng.random() < 0.88 else rng.choice(allc)
        return [k, a, o]
    if k == "panel_disconnect":
        return [k, rng.randrange(nn), rng.randrange(6)]
    if k == "node_disconnect":
        return [k, rng.randrange(nn)]
    if k == "copy_io":
        busy = sorted({st[a][0] for a, _ in connected})
        m = rng.choice(busy) if busy and rng.random() < 0.85 else rng.randrange(nn)
        n = rng.randrange(nn)
        return [k, n, m, rng.random() < 0.65, rng.random() < 0.25]
    kids = [[u.node_idx[id(c)] for c in w.children.values()] for w in u.wfs]
    orphans = [i for i, n in enumerate(u.nodes) if n.parent is None]
    if k == "remove":
        w = rng.randrange(nwf)
        return [k, w, rng.choice(kids[w]) if kids[w] and rng.random() < 0.85 else rng.randrange(nn)]
    if k == "remove_label":
        w = rng.randrange(nwf)
        return [k, w, rng.choice(kids[w]) if kids[w] and rng.random() < 0.8 else rng.randrange(nn)]
    if k == "set_parent":
        owned = [i for i, n in enumerate(u.nodes) if n.parent is not None]
        n = rng.choice(owned) if owned and rng.random() < 0.8 else rng.randrange(nn)
        return [k, n, rng.choice([-1] + list(range(nwf)) * 2)]
    if k == "add":
        return [k, rng.randrange(nwf), rng.choice(orphans) if orphans and rng.random() < 0.85 else rng.randrange(nn),
                rng.random() < 0.3]
    if k == "replace":
        w = rng.randrange(nwf)
        n = rng.choice(kids[w]) if kids[w] and rng.random() < 0.9 else rng.randrange(nn)
        free = [i for i in orphans if not u.nodes[i].connected]
        same = [i for i in free if u.case["nodes"][i][0] == u.case["nodes"][n][0]]
        if not free and rng.random() < 0.7:      # nothing could replace anything: do something else
            return _gen_op(rng, u)
        m = rng.choice(same) if same and rng.random() < 0.5 else \
            rng.choice(free) if free and rng.random() < 0.85 else rng.randrange(nn)
        return [k, w, n, m]
    if k in ("wire_dag", "run_wf", "wf_disconnect_run"):
        return [k, rng.randrange(nwf)]
    if k == "pull":
        withup = sorted({st[a][0] for a, _ in connected if st[a][2] == "Data" and st[a][3] == "DIn"})
        return [k, rng.choice(withup) if withup and rng.random() < 0.8 else rng.randrange(nn)]
    raise AssertionError(k)


def _prefix_ops(rng, u):
    """a data DAG over a random order of the nodes (+ a few manual signals), so that pulls see
    deep trees, wirings see several upstream nodes and copies see several connections"""
    st, nn = u.st, len(u.nodes)
    order = list(range(nn))
    rng.shuffle(order)
    ops = []
    for pos in range(1, nn):
        tgt = order[pos]
        ins = [c for c, s in enumerate(st) if s[0] == tgt and s[2] == "Data" and s[3] == "DIn"]
        for _ in range(rng.choice([1, 1, 2, 2, 3])):
            src = rng.choice(order[:pos])
            outs = [c for c, s in enumerate(st) if s[0] == src and s[2] == "Data" and s[3] == "DOut"]
            ops.append(["connect", rng.choice(ins), [rng.choice(outs)]] if rng.random() < 0.6
                       else ["assign", rng.choice(ins), ["c", rng.choice(outs)]])
    for _ in range(rng.choice([0, 1, 2, 3])):
        a, b = rng.sample(order, 2) if nn > 1 else (0, 0)
        ops.append(["rshift", ["n", a], ["n", b]] if rng.random() < 0.6 else ["lshift", ["n", b], [["n", a]], False])
    return ops


def gen_case(rng, nmin, nmax, lmin, lmax):
    case = _gen_universe(rng, nmin, nmax)
    u = Universe(case)
    todo = _prefix_ops(rng, u) if rng.random() < 0.35 else []
    for _ in range(rng.randint(lmin, lmax)):
        op = todo.pop(0) if todo else _gen_op(rng, u)
        case["ops"].append(op)
        if u.step(op)[0] == "Timeout":
            case["_hung"] = True
            break
    return case


def generate(ctx):
    rng = ctx.rng
    out, seen = [{"compat": True, "nodes": [], "nwf": 0, "ops": []}], set()
    n = ctx.n(600, 4000)
    hangs = 0
    while len(out) < n and hangs < 3:      # a library that hangs is reported from the first few such cases
        r = rng.random()
        if ctx.quick:
            c = gen_case(rng, 3, 5, 8, 26) if r < 0.8 else gen_case(rng, 5, 6, 20, 40)
        else:
            c = gen_case(rng, 3, 5, 8, 30) if r < 0.6 else gen_case(rng, 5, 7, 25, 60)
        kk = _case_key(c)
        if kk not in seen:
            seen.add(kk)
            out.append(c)
            hangs += bool(c.pop("_hung", False))
    return out


def search(ctx, results, mism):
    """extra implementation-side search when only a gate / the correspondence fails"""
    import random
    rng = random.Random(f"C12-search-{ctx.seed}")
    out = []
    while len(out) < 1500:
        out.append(gen_case(rng, 3, 6, 8, 40))
        if out[-1].pop("_hung", False):
            break
    return out


def corpus(ctx):
    out = []
    for p in sorted((lib.VERIF / "corpus" / PROP).glob("*.json")):
        out.extend(json.loads(p.read_text()))
    return out
