"""C04 -- an accepted typed connection is sound, and comparing hints never crashes.

Tie to the code: coq/theories/HintsGen.v is REGENERATED from /repo's type_hinting.py by
tools/py2gallina.py on every run; Props/C04.v is proved about that generated function.
In addition the generated model and `Hints.admits` are run against the real functions
(type_hint_is_as_or_more_specific_than, valid_value) on generated hint pairs / values.
"""
from __future__ import annotations

import collections.abc
import itertools
import types
import typing

from harness import lib
from harness.lib import cb, cl, cn, cs, cz

PROP = "C04"
IMPORTS = "Base Hints HintsGen HintsConn"
FUEL = 40
RULE = ("hint pairs grown from the grammar (classes/subclasses, None, X|Y, typing.Union/Optional, Literal, "
        "Annotated, list/set/dict/tuple/type/Callable generics, depth<=3) + (value, hint) pairs; channel-level pairs as a data "
        "connection, a value link, and the link a macro re-forges to its typed output when a child is replaced; a case is "
        "non-trivial when at least one side is not a bare class; distinct = distinct (kind, hint, other/value) ASTs")
TRUSTED = ["tools/py2gallina.py: maps each accepted Python idiom of type_hinting.py to the Hints.v primitive it names",
           "Hints.admits models isinstance + typeguard 4.4 (FIRST_ITEM strategy) for the grammar of the property; "
           "validated differentially against valid_value on every run"]
ASSUMPTIONS = ["grammar of hints as stated in the property; Callable hints take plain classes as parameters; "
               "type[...] takes a plain class; pint.Quantity unwrapping not modelled"]


class UA:  # user classes of the lattice
    pass


class UB(UA):
    pass


class UC:
    pass


CLS = {"Object": object, "Int": int, "Bool": bool, "Float": float, "Str": str, "NoneT": type(None),
       "ListC": list, "DictC": dict, "TupleC": tuple, "SetC": set, "TypeC": type, "UA": UA, "UB": UB, "UC": UC}
CLS_INV = {v: k for k, v in CLS.items()}
CLS_INV[collections.abc.Callable] = "CallableC"

# ---- hint AST <-> python objects ------------------------------------------------------
# ("cls", name) ("val", lit) ("par", [h]) ("new", [h]) ("old", [h]) ("lit", [lit]) ("ann", h) ("gen", origin, [h])
# lit: ("none",) ("int", z) ("bool", b) ("str", s) ("ellipsis",)


def build_lit(l):
    k = l[0]
    return {"none": lambda: None, "int": lambda: l[1], "bool": lambda: l[1], "str": lambda: l[1],
            "ellipsis": lambda: Ellipsis}[k]()


def build(h):
    k = h[0]
    if k == "cls":
        return CLS[h[1]]
    if k == "val":
        return build_lit(h[1])
    if k == "par":
        return [build(x) for x in h[1]]
    if k == "new":
        parts = [build(x) for x in h[1]]
        r = parts[0]
        for p in parts[1:]:
            r = r | p
        return r
    if k == "old":
        return typing.Union[tuple(build(x) for x in h[1])]
    if k == "lit":
        return typing.Literal[tuple(build_lit(x) for x in h[1])]
    if k == "ann":
        return typing.Annotated[build(h[1]), "meta"]
    if k == "gen":
        o, args = h[1], h[2]
        if o == "CallableC":
            return collections.abc.Callable[build(args[0]), build(args[1])]
        base = CLS[o]
        if o == "TupleC" and not args:
            return tuple[()]
        return base[tuple(build(x) for x in args)]
    raise ValueError(h)


def reflect_lit(v):
    if v is None:
        return ("none",)
    if v is Ellipsis:
        return ("ellipsis",)
    if isinstance(v, bool):
        return ("bool", v)
    if isinstance(v, int):
        return ("int", v)
    if isinstance(v, str):
        return ("str", v)
    raise ValueError(v)


def reflect(o):
    """canonical AST of a python typing object (what Python actually built)"""
    if isinstance(o, list):
        return ("par", [reflect(x) for x in o])
    if isinstance(o, type) and o in CLS_INV:
        return ("cls", CLS_INV[o])
    if o is None or o is Ellipsis or isinstance(o, (bool, int, str)):
        return ("val", reflect_lit(o))
    if isinstance(o, types.UnionType):
        return ("new", [reflect(x) for x in typing.get_args(o)])
    org = typing.get_origin(o)
    if org is typing.Union:
        return ("old", [reflect(x) for x in typing.get_args(o)])
    if org is typing.Literal:
        return ("lit", [reflect_lit(x) for x in typing.get_args(o)])
    if org is typing.Annotated:
        return ("ann", reflect(o.__origin__))
    if org in CLS_INV:
        return ("gen", CLS_INV[org], [reflect(x) for x in typing.get_args(o)])
    raise ValueError(f"outside the grammar: {o!r}")


def lit_coq(l):
    k = l[0]
    return {"none": lambda: "LNone", "int": lambda: f"(LInt {cz(l[1])})", "bool": lambda: f"(LBool {cb(l[1])})",
            "str": lambda: f"(LStr {cs(l[1])})", "ellipsis": lambda: "LEllipsis"}[k]()


def hint_coq(h):
    k = h[0]
    if k == "cls":
        return f"(HCls {h[1]})"
    if k == "val":
        return f"(HVal {lit_coq(h[1])})"
    if k in ("par", "new", "old"):
        return f"(H{k.capitalize()} {cl(hint_coq(x) for x in h[1])})"
    if k == "lit":
        return f"(HLit {cl(lit_coq(x) for x in h[1])})"
    if k == "ann":
        return f"(HAnn {hint_coq(h[1])})"
    if k == "gen":
        return f"(HGen {h[1]} {cl(hint_coq(x) for x in h[2])})"
    raise ValueError(h)


# ---- values ----------------------------------------------------------------------------
# ("none",) ("bool",b) ("int",z) ("float",z) ("str",s) ("list",[v]) ("tuple",[v]) ("set",[v]) ("dict",[[k,v]])
# ("cls",name) ("fun",n) ("obj",name)
def build_val(v):
    k = v[0]
    if k == "none":
        return None
    if k in ("bool", "int", "str"):
        return v[1]
    if k == "float":
        return v[1] + 0.5
    if k == "list":
        return [build_val(x) for x in v[1]]
    if k == "tuple":
        return tuple(build_val(x) for x in v[1])
    if k == "set":
        return {build_val(x) for x in v[1]}
    if k == "dict":
        return {build_val(a): build_val(b) for a, b in v[1]}
    if k == "cls":
        return CLS[v[1]]
    if k == "fun":
        return [lambda: 0, lambda a: 0, lambda a, b: 0, lambda a, b, c: 0][v[1]]
    if k == "obj":
        return CLS[v[1]]()
    raise ValueError(v)


def val_coq(v):
    k = v[0]
    if k == "none":
        return "VNone"
    if k == "bool":
        return f"(VBool {cb(v[1])})"
    if k == "int":
        return f"(VInt {cz(v[1])})"
    if k == "float":
        return f"(VFloat {cz(v[1])})"
    if k == "str":
        return f"(VStr {cs(v[1])})"
    if k in ("list", "tuple", "set"):
        return f"(V{k.capitalize()} {cl(val_coq(x) for x in v[1])})"
    if k == "dict":
        return "(VDict " + cl(f"({val_coq(a)}, {val_coq(b)})" for a, b in v[1]) + ")"
    if k == "cls":
        return f"(VCls {v[1]})"
    if k == "fun":
        return f"(VFun {cn(v[1])})"
    if k == "obj":
        return f"(VObj {v[1]})"
    raise ValueError(v)


I = lambda z: ("int", z)
S = lambda s: ("str", s)
POOL = [("none",), ("bool", True), ("bool", False), I(0), I(1), I(2), I(-1), ("float", 1), S("a"), S("b"), S(""),
        ("list", []), ("list", [I(1)]), ("list", [S("a")]), ("list", [I(1), S("a")]), ("list", [S("a"), I(1)]),
        ("list", [("list", [I(1)])]), ("list", [("list", [])]), ("list", [("none",)]), ("list", [("bool", True)]),
        ("tuple", []), ("tuple", [I(1)]), ("tuple", [I(1), I(2)]), ("tuple", [I(1), S("a")]), ("tuple", [S("a")]),
        ("tuple", [S("a"), I(1)]), ("tuple", [("bool", True)]), ("tuple", [("none",), I(1)]),
        ("tuple", [I(1), I(2), I(3)]),
        ("set", []), ("set", [I(1)]), ("set", [S("a")]),
        ("dict", []), ("dict", [[I(1), S("a")]]), ("dict", [[S("a"), I(1)]]), ("dict", [[I(1), I(1)]]),
        ("dict", [[I(1), S("a")], [S("b"), I(2)]]),
        ("cls", "Int"), ("cls", "Bool"), ("cls", "Str"), ("cls", "Float"), ("cls", "UA"), ("cls", "UB"), ("cls", "UC"),
        ("cls", "Object"), ("cls", "NoneT"),
        ("fun", 0), ("fun", 1), ("fun", 2), ("obj", "UA"), ("obj", "UB"), ("obj", "UC"), ("obj", "Object")]

# ---- generators ------------------------------------------------------------------------
# Float is kept out of generated hints: see known finding S23 (typeguard promotes int to float below top level)
PLAIN = ["Object", "Int", "Bool", "Str", "NoneT", "UA", "UB", "UC", "ListC", "DictC", "TupleC", "SetC", "TypeC"]
LITS = [("none",), ("int", 0), ("int", 1), ("int", 2), ("bool", True), ("bool", False), ("str", "a"), ("str", "b")]


def gen_hint(rng, depth, allow_empty_tuple=True):
    if depth <= 0 or rng.random() < 0.25:
        return ("cls", rng.choice(PLAIN[:8] if rng.random() < 0.8 else PLAIN))
    k = rng.choice(["new", "new", "old", "old", "opt", "lit", "ann", "list", "set", "dict", "tuple", "tuple", "vtuple",
                    "etuple", "type", "callable"])
    sub = lambda: gen_hint(rng, depth - 1)
    if k == "new":      # X | Y needs class-like members; Python decides what object results
        return ("new", [gen_hint(rng, min(depth - 1, 1)) for _ in range(rng.choice([2, 2, 3]))])
    if k == "old":
        return ("old", [sub() for _ in range(rng.choice([2, 2, 3]))])
    if k == "opt":
        return ("old", [sub(), ("cls", "NoneT")])
    if k == "lit":
        return ("lit", rng.sample(LITS, rng.choice([1, 2, 3])))
    if k == "ann":
        return ("ann", sub())
    if k == "list":
        return ("gen", "ListC", [sub()])
    if k == "set":
        return ("gen", "SetC", [sub()])
    if k == "dict":
        return ("gen", "DictC", [sub(), sub()])
    if k == "tuple":
        return ("gen", "TupleC", [sub() for _ in range(rng.choice([1, 2, 2, 3]))])
    if k == "vtuple":
        return ("gen", "TupleC", [sub(), ("val", ("ellipsis",))])
    if k == "etuple":
        return ("gen", "TupleC", []) if allow_empty_tuple else ("gen", "TupleC", [sub()])
    if k == "type":
        return ("gen", "TypeC", [("cls", rng.choice(PLAIN[:8]))])
    if k == "callable":
        return ("gen", "CallableC", [("par", [("cls", rng.choice(PLAIN[:8])) for _ in range(rng.choice([0, 1, 2]))]),
                                     sub()])
    raise AssertionError


def _mixed_literal(h):
    # typeguard looks a value up with tuple.index and then compares types, so it rejects 1 for
    # Literal[True, 1]: third-party quirk; such Literals are kept out of the grammar (DESIGN C04)
    if h[0] != "lit":
        return False
    vals = [x[1] for x in h[1] if x[0] in ("int", "bool")]
    return any(a == b and type(a) is not type(b) for a in vals for b in vals)


def canon(h):
    """AST -> python object -> AST, so that the model sees what Python really built"""
    try:
        r = reflect(build(h))
    except (TypeError, ValueError):
        return None
    return None if _mentions(r, _mixed_literal) else r


def mutate(rng, h):
    """a near-identical variant of h (so that accepted pairs are frequent)"""
    k = h[0]
    r = rng.random()
    if r < 0.3:
        return h
    if k == "cls":
        up = {"Bool": "Int", "UB": "UA"}
        if r < 0.6 and h[1] in up:
            return ("cls", up[h[1]])
        if r < 0.8:
            return ("cls", "Object")
        return ("old", [h, ("cls", rng.choice(["Str", "NoneT", "UC"]))])
    if k in ("new", "old"):
        ms = [mutate(rng, x) for x in h[1]]
        if r < 0.55:
            ms = ms + [("cls", rng.choice(["Str", "Int", "UC"]))]
        elif r < 0.7:
            rng.shuffle(ms)
        elif r < 0.8 and len(ms) > 2:
            ms = ms[:-1]
        return (k if rng.random() < 0.7 else ("old" if k == "new" else "new"), ms)
    if k == "lit":
        ls = list(h[1])
        if r < 0.6:
            ls = ls + [rng.choice(LITS)]
        elif r < 0.8:
            ls = [("bool", True) if x == ("int", 1) else ("int", 1) if x == ("bool", True) else x for x in ls]
        return ("lit", ls)
    if k == "ann":
        return ("ann", mutate(rng, h[1])) if r < 0.7 else mutate(rng, h[1])
    if k == "gen":
        if r < 0.4:
            return ("cls", h[1]) if h[1] != "CallableC" else h
        if h[1] == "TupleC" and r < 0.5:
            return ("gen", "TupleC", [])
        return ("gen", h[1], [mutate(rng, x) if x[0] not in ("par", "val") else x for x in h[2]])
    return h


def generate(ctx):
    rng = ctx.rng
    cases, seen = [], set()
    n_cmp = ctx.n(1200, 12000)
    n_val = ctx.n(900, 6000)
    while len(cases) < n_cmp:
        h = canon(gen_hint(rng, rng.choice([1, 2, 2, 3])))
        if h is None:
            continue
        o = canon(mutate(rng, h)) if rng.random() < 0.6 else canon(gen_hint(rng, rng.choice([1, 2, 3])))
        if o is None:
            continue
        if rng.random() < 0.3:
            h, o = o, h
        if rng.random() < 0.08:
            o = h
        key = ("cmp", repr(h), repr(o))
        if key in seen:
            continue
        seen.add(key)
        cases.append({"kind": "cmp", "h": h, "o": o})
    # channel level: what the library accepts as a data connection / as a macro value link
    n_ch = ctx.n(500, 4000)
    made = 0
    while made < n_ch:
        h = canon(gen_hint(rng, rng.choice([1, 2, 2, 3])))
        if h is None:
            continue
        o = canon(mutate(rng, h)) if rng.random() < 0.7 else canon(gen_hint(rng, rng.choice([1, 2])))
        if o is None:
            continue
        if rng.random() < 0.3:
            h, o = o, h
        kind = rng.choice(["connect", "link"])
        case = {"kind": kind, "h": h if rng.random() < 0.9 else None, "o": o if rng.random() < 0.9 else None,
                "s_src": rng.random() < 0.6, "s_dst": rng.random() < 0.75}
        if rng.random() < 0.12:
            # the same pair as the value link a macro re-forges when one of its children is replaced
            case = {"kind": "relink", "h": h, "o": o, "s_src": True, "s_dst": True}
            kind = "relink"
        key = (kind, repr(case))
        if key in seen:
            continue
        seen.add(key)
        cases.append(case)
        made += 1
    n_cmp += n_ch
    while len(cases) < n_cmp + n_val:
        h = canon(gen_hint(rng, rng.choice([0, 1, 2, 2, 3])))
        if h is None:
            continue
        v = rng.choice(POOL)
        key = ("valid", repr(h), repr(v))
        if key in seen:
            continue
        seen.add(key)
        cases.append({"kind": "valid", "h": h, "v": v})
    return cases


def corpus(ctx):
    out = []
    for p in sorted((lib.VERIF / "corpus" / PROP).glob("*.json")):
        import json
        out.extend(json.loads(p.read_text()))
    return out


# ---- implementation --------------------------------------------------------------------
def _tolist(x):
    return [_tolist(e) for e in x] if isinstance(x, (list, tuple)) else x


class _Owner:
    label = "o"
    full_label = "/o"

    def data_input_locked(self):
        return False


def _relink_src(x=0):
    y = x
    return y


_RELINK_CHILD = [None]


def _relink_creator(self, x=0):
    self.c = _RELINK_CHILD[0](x=x)
    return self.c


def run_relink(case):
    """a macro whose typed output `o` stands for the output of its child c; c is replaced by a node whose output carries the
    hint `h`: replace_child forges the value link child output -> macro output anew, for the pair (h, o)"""
    from pyiron_workflow.nodes.function import as_function_node
    from pyiron_workflow.nodes.macro import as_macro_node
    _relink_src.__annotations__ = {"return": build(case["o"])}
    _RELINK_CHILD[0] = as_function_node("y")(_relink_src)
    _relink_creator.__annotations__ = {"return": build(case["o"])}
    m = as_macro_node("out")(_relink_creator)(label="m")
    m.recovery = None
    _relink_src.__annotations__ = {"return": build(case["h"])}
    new = as_function_node("y")(_relink_src)(label="c")
    try:
        m.replace_child(m.c, new)
    except (ValueError, TypeError):
        return False
    return new.outputs.y.value_receiver is m.outputs.out


def run_channels(case):
    from pyiron_workflow.channels import ChannelConnectionError, InputData, OutputData
    own = _Owner()
    th = lambda h: None if h is None else build(h)
    try:
        if case["kind"] == "relink":
            return run_relink(case)
        if case["kind"] == "connect":
            out = OutputData("y", own, type_hint=th(case["h"]), strict_hints=case["s_src"])
            inp = InputData("x", own, type_hint=th(case["o"]), strict_hints=case["s_dst"])
            try:
                inp.connect(out)
                return out in inp.connections
            except ChannelConnectionError:
                return False
        snd = InputData("a", own, type_hint=th(case["h"]), strict_hints=case["s_src"])
        rcv = InputData("b", own, type_hint=th(case["o"]), strict_hints=case["s_dst"])
        try:
            snd.value_receiver = rcv
            return snd.value_receiver is rcv
        except ValueError:
            return False
    except RecursionError:
        return "RecursionError"
    except Exception as e:
        return "EXC:" + type(e).__name__


def run_impl(case):
    from pyiron_workflow.type_hinting import type_hint_is_as_or_more_specific_than as ms, valid_value
    case = _tolist(case)
    if case["kind"] in ("connect", "link", "relink"):
        return run_channels(case)
    if case["kind"] == "cmp":
        try:
            r = ms(build(case["h"]), build(case["o"]))
        except RecursionError:
            return "RecursionError"
        except Exception as e:
            return "EXC:" + type(e).__name__
        return bool(r)
    r = valid_value(build_val(case["v"]), build(case["h"]))
    return bool(r)


def _mentions(h, pred):
    if pred(h):
        return True
    if h[0] in ("new", "old", "par"):
        return any(_mentions(x, pred) for x in h[1])
    if h[0] == "ann":
        return _mentions(h[1], pred)
    if h[0] == "gen":
        return any(_mentions(x, pred) for x in h[2])
    return False


_is_callable = lambda h: h[0] == "gen" and h[1] == "CallableC"
_is_float = lambda h: h[0] == "cls" and h[1] == "Float"


def _dchan(h, strict):
    return f"{{| d_hint := {'None' if h is None else '(Some ' + hint_coq(h) + ')'}; d_strict := {cb(strict)} |}}"


def model_term(case):
    case = _tolist(case)
    if case["kind"] in ("connect", "link", "relink"):
        f = "valid_connection" if case["kind"] == "connect" else "receiver_ok"
        return f"obs_ob ({f} {cn(FUEL)} {_dchan(case['h'], case['s_src'])} {_dchan(case['o'], case['s_dst'])})"
    if case["kind"] == "valid" and case["v"][0] == "cls" and _mentions(case["h"], _is_callable):
        return None   # classes as callables: typeguard inspects constructor signatures, outside the model
    if case["kind"] == "valid" and _mentions(case["h"], _is_float):
        return None   # S23
    if case["kind"] == "cmp":
        return f"obs_ob (more_specific {cn(FUEL)} {hint_coq(case['h'])} {hint_coq(case['o'])})"
    return f"ob (admits {hint_coq(case['h'])} {val_coq(case['v'])})"


def _has_empty_tuple(h):
    if h[0] == "gen":
        return (h[1] == "TupleC" and not h[2]) or any(_has_empty_tuple(x) for x in h[2])
    if h[0] in ("new", "old", "par"):
        return any(_has_empty_tuple(x) for x in h[1])
    if h[0] == "ann":
        return _has_empty_tuple(h[1])
    return False


def oracle(case, obs):
    from pyiron_workflow.type_hinting import valid_value
    case = _tolist(case)
    if case["kind"] in ("connect", "link", "relink"):
        if not isinstance(obs, bool):
            return f"crash: forming a {case['kind']} raised {obs}"
        if obs and case["h"] is not None and case["o"] is not None and case["s_dst"]:
            hh, oo = build(case["h"]), build(case["o"])
            for v in POOL:
                pv = build_val(v)
                if valid_value(pv, hh) and not valid_value(pv, oo):
                    return (f"unsound-{case['kind']}: accepted between two hinted channels with a strict receiving side, but value "
                            f"{v} is admitted by the source hint and not by the target hint")
        return None
    if case["kind"] != "cmp":
        return None
    if not isinstance(obs, bool):
        return f"crash: comparing hints raised {obs}"
    if case["h"] == case["o"] and obs is not True:
        return "irreflexive: a hint is not compatible with itself"
    if obs is True:
        hh, oo = build(case["h"]), build(case["o"])
        for v in POOL:
            pv = build_val(v)
            if valid_value(pv, hh) and not valid_value(pv, oo):
                return f"unsound: accepted, but value {v} is admitted by the source hint and not by the target hint"
    return None


def known(case, obs, verdict):
    case = _tolist(case)
    if case.get("h") is None or case.get("o") is None:
        return None
    if verdict.startswith("unsound") and _has_empty_tuple(case["o"]):
        return "S3-empty-tuple-target"
    if verdict.startswith("unsound") and (_mentions(case["o"], _is_float) or _mentions(case["h"], _is_float)):
        return "S23-float-promotion"
    return None


def nontrivial(case, obs):
    if case["kind"] in ("connect", "link", "relink"):
        return case["h"] is not None and case["o"] is not None and (case["h"][0] != "cls" or case["o"][0] != "cls")
    return case["h"][0] != "cls" or (case["kind"] == "cmp" and case["o"][0] != "cls")


def key(case):
    return [case["kind"], case["h"], case.get("o"), case.get("v"), case.get("s_src"), case.get("s_dst")]


def shrink_candidates(case):
    case = _tolist(case)
    if case["kind"] != "cmp":
        return

    def subs(h):
        k = h[0]
        if k in ("new", "old"):
            for i in range(len(h[1])):
                yield h[1][i]
                if len(h[1]) > 2:
                    yield [k, h[1][:i] + h[1][i + 1:]]
                for s in subs(h[1][i]):
                    yield [k, h[1][:i] + [s] + h[1][i + 1:]]
        elif k == "ann":
            yield h[1]
            for s in subs(h[1]):
                yield ["ann", s]
        elif k == "lit" and len(h[1]) > 1:
            for i in range(len(h[1])):
                yield ["lit", h[1][:i] + h[1][i + 1:]]
        elif k == "gen":
            for i, x in enumerate(h[2]):
                if x[0] not in ("par", "val"):
                    if h[1] in ("ListC", "SetC"):
                        yield x
                    for s in subs(x):
                        yield ["gen", h[1], h[2][:i] + [s] + h[2][i + 1:]]
    for s in subs(case["h"]):
        c = canon(tuple_ast(s))
        if c is not None:
            yield {"kind": "cmp", "h": _tolist(c), "o": case["o"]}
    for s in subs(case["o"]):
        c = canon(tuple_ast(s))
        if c is not None:
            yield {"kind": "cmp", "h": case["h"], "o": _tolist(c)}


def tuple_ast(h):
    return h


def distribution(results):
    d = {"cmp": 0, "valid": 0, "connect": 0, "link": 0, "relink": 0, "channel_accepted": 0, "cmp_true": 0, "cmp_false": 0, "cmp_crash": 0, "valid_true": 0}
    kinds = {}
    for c, enc, v, o in results:
        d[c["kind"]] += 1
        if c["kind"] == "cmp":
            d["cmp_true" if o is True else "cmp_false" if o is False else "cmp_crash"] += 1
            kinds[c["h"][0]] = kinds.get(c["h"][0], 0) + 1
        elif c["kind"] in ("connect", "link", "relink"):
            d["channel_accepted"] += o is True
        elif o is True:
            d["valid_true"] += 1
    d["hint_kinds"] = kinds
    return d


def prepare(ctx):
    return lib.regenerate_hintsgen()
