"""C14 -- graph edits are all-or-nothing and a replacement inherits the old node's place.

Model: coq/theories/Edit.v (hand-written mirror of Channel.connect/disconnect/copy_connections,
the value and value_receiver setters, HasIO._copy_connections/_copy_values/_copy_panel/copy_io,
Composite.remove_child/add_child/replace_child, Workflow.replace_child/_rebuild_data_io and
topology._set_new_run_connections_with_fallback_recovery/_set_run_connections_according_to_dag);
theorems in Props/C14.v.

A case = one small graph (a Workflow or a Macro `n0` with function-node children, free / foreign /
already-owned nodes, ordered data and signal connections, values, macro value links, starting
nodes) + ONE edit (replace_child | copy_io | copy_connections | set_run_signals_to_dag_execution | pull of a node
whose flow derivation is refused)
+ an optional injected failure ["c"|"v"|"l", k]: the k-th single connection / value assignment /
value-link assignment made during the edit raises InjectedFault (once).

  obs = [outcome, before, after, extra]
    outcome : 0 ok | 1 TypeError | 2 ChannelConnectionError | 3 ValueError | 4 AttributeError |
              5 KeyError | 6 ConnectionCopyError | 7 ValueCopyError | 8 CircularDataFlowError |
              10 InjectedFault | 11 RecursionError | "<class name>"
    before/after : the structural snapshot
        [children ids, label of every node, parent of every node (-1 none, 0 the composite, 99 another
         workflow), starting node ids, ordered connection list of every channel (channel ids),
         value of every data channel ([] NOT_DATA, [1,z] int, [2,z] "s<z>"), value receiver of every
         data channel (-1 none), the keys the composite holds its children under (as labels)]
    extra   : [the injected fault fired, it fired while another exception was being handled]
              (not compared with the model: model_view drops it)

The iteration order of the Python *set* of upstream nodes used by the flow derivation is id()
dependent: it is recomputed by the driver from the same objects just before the edit and handed to
the model as an input (the theorems quantify over it).
"""
import json
import sys

from harness import lib
from harness.lib import cb, cl, cn, cz

PROP = "C14"
IMPORTS = "Base Edit"
SHARD = 120
RULE = ("one edit (replace_child by instance / class / setattr / label, copy_io with both fail-hard flags, "
        "Channel.copy_connections, set_run_signals_to_dag_execution, or a pull whose flow derivation is refused because "
        "its data tree crosses scopes / is cyclic) on a Workflow or Macro of 2-4 function-node "
        "children of 10 kinds (typed int/str/int|str/untyped, extra / missing channels) with free, foreign and "
        "already-owned nodes, ordered data and run/ran connections (several per channel, now and then a node "
        "connected to itself), values, macro value links, IO maps, starting nodes; candidates: compatible, extra channels, missing a connected channel, "
        "missing a value-linked channel, wrongly hinted towards a neighbour / towards the macro IO, ill-valued "
        "towards the macro IO, owned, connected, a class; x an injected failure of the k-th connection / value / "
        "link transfer for every k up to the number of transfers; non-trivial = the edit failed, or succeeded on "
        "a node with >=2 connections on some channel; distinct = distinct (graph, edit, fault)")
TRUSTED = ["harness/props/c14.py driver: graph construction through the public API, fault wrappers around "
           "Channel.connect (one tick per `other`), DataChannel._type_check_new_value and the value_receiver "
           "setter, snapshot coding",
           "set iteration order of the upstream-node set is recomputed by the driver and given to the model"]
ASSUMPTIONS = ["children and candidates are function nodes (a macro / workflow is only the composite being edited); "
               "no executors, nothing running (data_input_locked is False); hint tags int / str / int|str; values "
               "are ints and strings",
               "Workflow._rebuild_data_io (tree at a33e34e) finds every exposed channel under its own key and moves "
               "nothing; its failure branch (swap back + re-raise) is modelled but not reachable in the explored graphs",
               "for a Workflow the inbound/outbound value-link scan of replace_child is empty (children of a "
               "workflow carry no value links in the explored graphs)"]

LABELS = ["x", "z", "w", "y", "v", "run", "accumulate_and_run", "ran", "failed", "p", "q", "r", "s", "bx", "by"]
LIDX = {s: i for i, s in enumerate(LABELS)}
EXC = {"TypeError": 1, "ChannelConnectionError": 2, "ValueError": 3, "AttributeError": 4, "KeyError": 5,
       "ConnectionCopyError": 6, "ValueCopyError": 7, "CircularDataFlowError": 8, "InjectedFault": 10,
       "RecursionError": 11}
EXC_INV = {v: k for k, v in EXC.items()}
HTAGS = [("HInt", int), ("HStr", str), ("HIntStr", int | str)]
HTAG = {int: "HInt", str: "HStr", (int | str): "HIntStr"}
OTHER = 99     # parent code of the second workflow


class InjectedFault(Exception):
    pass


# ---- node functions (module level: the library reads their source) ----------------------
def _num(a):
    return a if isinstance(a, int) else 1000 + int(a[1:]) if isinstance(a, str) and a[1:].isdigit() else 7


def k0(x: int = 0, z=0) -> int:
    y = (3 * _num(x) + 5 * _num(z) + 1) % 997
    return y


def k1(x: int = 0, z=0) -> int:
    y = (3 * _num(x) + 5 * _num(z) + 2) % 997
    return y


def k2(x: int = 0, z=0, w: int = 0) -> tuple[int, int]:
    y = (3 * _num(x) + 5 * _num(z) + 1) % 997
    v = _num(w)
    return y, v


def k3(x: int = 0) -> int:
    y = (3 * _num(x) + 1) % 997
    return y


def k4(x: int = 0, z=0) -> int:
    v = (3 * _num(x) + 5 * _num(z) + 1) % 997
    return v


def k5(x: str = "s0", z=0) -> int:
    y = (3 * _num(x) + 5 * _num(z) + 1) % 997
    return y


def k6(x: int = 0, z=0) -> str:
    y = "s" + str((3 * _num(x) + 5 * _num(z) + 1) % 997)
    return y


def k7(x: int | str = 0, z=0) -> int | str:
    y = (3 * _num(x) + 5 * _num(z) + 1) % 997
    return y


def k8(x=0, z=0):
    y = (3 * _num(x) + 5 * _num(z) + 1) % 997
    return y


def k9(x: int = 0, z: int = 0) -> int:
    y = (3 * _num(x) + 5 * _num(z) + 1) % 997
    return y


def k10(p=0, q=0):
    r = (3 * _num(p) + 5 * _num(q) + 1) % 997
    return r


KFUN = [k0, k1, k2, k3, k4, k5, k6, k7, k8, k9, k10]
KNAME = ["base", "twin", "extra", "no-z", "no-y", "x:str", "y:str", "loose", "bare", "z:int", "macro-like p,q->r"]
_KCLS = {}
_KIND_IO = {}


def _kcls(kind):
    if kind not in _KCLS:          # one node class per kind (the source is scraped once)
        from pyiron_workflow.nodes.function import as_function_node
        _KCLS[kind] = as_function_node()(KFUN[kind])
    return _KCLS[kind]


def _mknode(kind, label):
    n = _kcls(kind)(label=label)
    n.recovery = None
    return n


PANELS = ["PIn", "POut", "PSIn", "PSOut"]


def _vdec(v):
    from pyiron_workflow.channels import NOT_DATA
    if v is NOT_DATA:
        return []
    if isinstance(v, bool):
        return ["?bool"]
    if isinstance(v, int):
        return [1, v]
    if isinstance(v, str) and v[:1] == "s" and v[1:].isdigit():
        return [2, int(v[1:])]
    return ["?" + type(v).__name__]


def _venc(v):
    from pyiron_workflow.channels import NOT_DATA
    if v is None or v == []:
        return NOT_DATA
    return v[1] if v[0] == 1 else "s" + str(v[1])


def kind_io(kind):
    """static description of a kind's channels, read off a real instance:
    [(label idx, panel idx, hint tag | None, default value)] in _owned_io_panels order"""
    if kind not in _KIND_IO:
        n = _mknode(kind, "probe")
        out = []
        for pi, panel in enumerate(n._owned_io_panels):
            for ch in panel:
                hint = HTAG[ch.type_hint] if pi < 2 and ch.type_hint is not None else None
                out.append((LIDX[ch.label], pi, hint, _vdec(ch.value) if pi < 2 else None))
        _KIND_IO[kind] = out
    return _KIND_IO[kind]


# ---- macro classes (module level) ------------------------------------------------------------
_SPEC = {}          # what the next macro instance builds: {"kinds": [...], "links_in": [...], "links_out": [...]}


def _mac_children(self, uis):
    """create the children of the case, feed each macro input to its linked child input and
    return the linked child outputs"""
    spec = _SPEC["spec"]
    kids = {}
    for i, kind in spec["children"]:
        kids[i] = self.add_child(_mknode(kind, f"n{i}"))
    for ui, (i, lab) in zip(uis, spec["links_in"], strict=True):
        kids[i].inputs[LABELS[lab]] = ui
    _SPEC["built"] = kids
    return [kids[i].outputs[LABELS[lab]] for (i, lab) in spec["links_out"]]


def _make_macros():
    from pyiron_workflow.nodes.macro import as_macro_node

    @as_macro_node("r")
    def MA(self, p: int = 0, q=0) -> int:
        outs = _mac_children(self, [p, q])
        return outs[0]

    @as_macro_node("r", "s")
    def MB(self, p: int | str = 0, q: str = "s0"):
        outs = _mac_children(self, [p, q])
        return outs[0], outs[1]

    @as_macro_node("r")
    def MC(self, p: str = "s0") -> str:
        outs = _mac_children(self, [p])
        return outs[0]

    @as_macro_node("r")
    def MD(self, p=0) -> int | str:
        outs = _mac_children(self, [p])
        return outs[0]

    return [MA, MB, MC, MD]


_MACROS = []
# static IO of the macro classes: (inputs [(label, hint)], outputs [(label, hint)]); checked against the
# real classes when a macro is built
MAC_IO = [
    ([("p", "HInt"), ("q", None)], [("r", "HInt")]),
    ([("p", "HIntStr"), ("q", "HStr")], [("r", None), ("s", None)]),
    ([("p", "HStr")], [("r", "HStr")]),
    ([("p", None)], [("r", "HIntStr")]),
]


def _macros():
    if not _MACROS:
        _MACROS.extend(_make_macros())
    return _MACROS


# ---- static layout of a case ---------------------------------------------------------------------
def statics(case):
    """[(owner, label idx, panel idx, hint, strict)] for every channel id; node 0 is the composite"""
    out = []
    loose = set(case.get("loose", []))
    if case["comp"] == "mac":
        ins, outs = MAC_IO[case["mcls"]]
        for (l, h) in ins:
            out.append((0, LIDX[l], 0, h, True))
        for (l, h) in outs:
            out.append((0, LIDX[l], 1, h, True))
        for (l, pi) in (("run", 2), ("accumulate_and_run", 2), ("ran", 3), ("failed", 3)):
            out.append((0, LIDX[l], pi, None, True))
    for i, (kind, _role) in enumerate(case["nodes"], start=1):
        for (l, pi, hint, _d) in kind_io(kind):
            out.append((i, l, pi, hint, len(out) not in loose))
    return out


def layout(case):
    """{(node, panel idx): [(label idx, cid)]}"""
    lay = {}
    for c, (o, l, pi, _h, _s) in enumerate(statics(case)):
        lay.setdefault((o, pi), []).append((l, c))
    return lay


def chan_of(case, node, pi, label):
    for (l, c) in layout(case).get((node, pi), []):
        if l == label:
            return c
    return None


def compat(o, i):
    return o == i or i == "HIntStr" and o in ("HInt", "HStr")


def valid(v, h):
    return h is None or v == [] or (v[0] == 1 and h in ("HInt", "HIntStr")) or (v[0] == 2 and h in ("HStr", "HIntStr"))


def conn_ok(st, a, b):
    """would a.connect(b) be accepted (conjugate + hints)?"""
    pa, pb = st[a][2], st[b][2]
    if {pa, pb} not in ({0, 1}, {2, 3}):
        return False
    if pa > 1:
        return True
    i, o = (a, b) if pa == 0 else (b, a)
    hi, ho = st[i][3], st[o][3]
    return hi is None or ho is None or not st[i][4] or compat(ho, hi)


# ---- fault injection -----------------------------------------------------------------------------
class Fault:
    """the k-th transfer of one kind raises InjectedFault (once)"""

    def __init__(self, spec, universe):
        self.kind, self.k = (spec[0], spec[1]) if spec else (None, 0)
        self.u = universe
        self.count = 0
        self.fired = False
        self.in_handler = False

    def tick(self, kind, ch):
        # channels of a node the library is still constructing (a class candidate) are not yet part of the
        # graph: their constructor's own assignments are no transfers of the edit
        if kind != self.kind or id(ch) not in self.u.cid:
            return
        self.count += 1
        if self.count == self.k:
            self.fired = True
            self.in_handler = sys.exc_info()[0] is not None
            raise InjectedFault(f"{kind}{self.k}")

    def __enter__(self):
        from pyiron_workflow.channels import Channel, DataChannel
        self._connect = Channel.connect
        self._check = DataChannel._type_check_new_value
        self._vr = DataChannel.value_receiver
        fault, orig_connect, orig_check, orig_vr = self, self._connect, self._check, self._vr

        def connect(ch, *others):
            for o in others:          # Channel.connect treats its arguments one by one, left to right
                fault.tick("c", ch)
                orig_connect(ch, o)

        def check(ch, new_value):
            fault.tick("v", ch)
            return orig_check(ch, new_value)

        def vr_set(ch, new_partner):
            fault.tick("l", ch)
            return orig_vr.fset(ch, new_partner)

        Channel.connect = connect
        DataChannel._type_check_new_value = check
        DataChannel.value_receiver = property(orig_vr.fget, vr_set, doc=orig_vr.__doc__)
        return self

    def __exit__(self, *a):
        from pyiron_workflow.channels import Channel, DataChannel
        Channel.connect = self._connect
        DataChannel._type_check_new_value = self._check
        DataChannel.value_receiver = self._vr
        return False


# ---- the real graph --------------------------------------------------------------------------------
class Universe:
    def __init__(self, case):
        from pyiron_workflow.workflow import Workflow
        self.case = case
        self.st = statics(case)
        nn = len(case["nodes"]) + 1
        self.nodes = [None] * nn
        kids = [i for i, (_k, role) in enumerate(case["nodes"], start=1) if role == "child"]
        if case["comp"] == "wf":
            wm = case.get("wmap") or []
            im = {f"n{nl}__{LABELS[chl]}": LABELS[key] for (nl, chl, inp, key) in wm if inp}
            om = {f"n{nl}__{LABELS[chl]}": LABELS[key] for (nl, chl, inp, key) in wm if not inp}
            comp = Workflow("n0", autoload=None, inputs_map=im or None, outputs_map=om or None)
            for i in kids:
                self.nodes[i] = comp.add_child(_mknode(case["nodes"][i - 1][0], f"n{i}"))
        else:
            _SPEC["spec"] = {"children": [(i, case["nodes"][i - 1][0]) for i in kids],
                             "links_in": [self._node_label(c) for c in case["links_in"]],
                             "links_out": [self._node_label(c) for c in case["links_out"]]}
            comp = _macros()[case["mcls"]](label="n0")
            for i, n in _SPEC.pop("built").items():
                self.nodes[i] = n
            ins, outs = MAC_IO[case["mcls"]]
            real = ([(c.label, HTAG.get(c.type_hint)) for c in comp.inputs],
                    [(c.label, HTAG.get(c.type_hint)) for c in comp.outputs])
            assert real == (ins, outs), f"macro IO table is stale: {real}"
            assert list(comp.children.values()) == [self.nodes[i] for i in kids], "macro kept helper children"
        comp.recovery = None
        self.comp = comp
        self.nodes[0] = comp
        self.other = None
        for i, (kind, role) in enumerate(case["nodes"], start=1):
            if role == "child":
                continue
            if role == "cls":
                continue                      # instantiated by the library during the edit
            lab = case.get("labels", {}).get(str(i), i)
            self.nodes[i] = _mknode(kind, f"n{lab}")
            if role == "owned":
                if self.other is None:
                    self.other = Workflow("other", autoload=None)
                    self.other.recovery = None
                self.other.add_child(self.nodes[i])
        self.chan = [None] * len(self.st)
        self.cid = {}
        for i in range(nn):
            if self.nodes[i] is not None:
                self._register(i)
        # strictness, connections (in order), starting nodes, values
        for c in case.get("loose", []):
            self.chan[c].strict_hints = False
        for a, b in case["edges"]:
            before = len(self.chan[a].connections)
            self.chan[a].connect(self.chan[b])
            assert len(self.chan[a].connections) == before + 1, f"edge {a}-{b} of the case is a duplicate"
        comp.starting_nodes = [self.nodes[i] for i in case["start"]]
        vals = {c: v for c, v in case["vals"]}
        order = sorted(range(len(self.st)), key=lambda c: (self._rank(c), c))
        for c in order:
            if self.chan[c] is not None and self.st[c][2] < 2:
                self.chan[c].value = _venc(vals.get(c))
        if case["comp"] == "mac":
            lin = [(c.value_receiver is self.chan[t]) for c, t in zip(comp.inputs, case["links_in"], strict=True)]
            lout = [(self.chan[s].value_receiver is c) for c, s in zip(comp.outputs, case["links_out"], strict=True)]
            assert all(lin) and all(lout), "macro value links are not the ones of the case"

    def _node_label(self, c):
        return (self.st[c][0], self.st[c][1])

    def _rank(self, c):
        """senders before receivers: macro inputs, child inputs, child outputs, macro outputs"""
        o, _l, pi, _h, _s = self.st[c]
        return (0 if pi == 0 else 3) if o == 0 else (1 if pi == 0 else 2)

    def _register(self, i):
        n = self.nodes[i]
        panels = list(n._owned_io_panels)          # a macro: inputs, outputs, signals
        if i == 0 and self.case["comp"] == "wf":
            panels = []                            # a workflow owns no data channels; its signals stay out
        chans = [ch for p in panels for ch in p]
        mine = [c for c, s in enumerate(self.st) if s[0] == i]
        assert len(chans) == len(mine), f"node {i}: {len(chans)} channels, layout says {len(mine)}"
        for c, ch in zip(mine, chans, strict=True):
            assert LIDX[ch.label] == self.st[c][1]
            self.chan[c] = ch
            self.cid[id(ch)] = c

    def node_index(self, n):
        for i, m in enumerate(self.nodes):
            if m is n:
                return i
        return 98

    def snapshot(self):
        nn = len(self.nodes)
        kids = [self.node_index(n) for n in self.comp.children.values()]
        labels, parents = [], []
        for n in self.nodes:
            if n is None:
                labels.append(None)
                parents.append(-1)
                continue
            s = n.label
            labels.append(int(s[1:]) if s[:1] == "n" and s[1:].isdigit() else 999)
            p = n.parent
            parents.append(-1 if p is None else 0 if p is self.comp else OTHER if p is self.other else 98)
        start = [self.node_index(n) for n in self.comp.starting_nodes]
        conns, vals, recv = [], [], []
        for c, ch in enumerate(self.chan):
            data = self.st[c][2] < 2
            if ch is None:
                conns.append(None)
                if data:
                    vals.append(None)
                    recv.append(None)
                continue
            conns.append([self.cid.get(id(p), 999) for p in ch.connections])
            if data:
                vals.append(_vdec(ch.value))
                r = ch.value_receiver
                recv.append(-1 if r is None else self.cid.get(id(r), 999))
        assert nn == len(labels)
        keys = [int(k[1:]) if k[:1] == "n" and k[1:].isdigit() else 999 for k in self.comp.children.keys()]
        return [kids, labels, parents, start, conns, vals, recv, keys]

    def orders(self):
        """iteration order of `{c.owner for c in upstream_connections}` for every child"""
        out = []
        for node in self.comp.children.values():
            ups = [con for inp in node.inputs for con in inp.connections]
            out.append([self.node_index(n) for n in {c.owner for c in ups}])
        return out

    def tree_order(self, target):
        """iteration order of the set get_nodes_in_data_tree returns for the pulled node"""
        from pyiron_workflow.topology import get_nodes_in_data_tree
        try:
            return [self.node_index(n) for n in get_nodes_in_data_tree(self.nodes[target])]
        except Exception:      # noqa: BLE001 -- cyclic data: the pull will say so itself
            return []

    def apply(self, op):
        k = op[0]
        if k == "pull":
            self.nodes[op[1]].pull()
            return
        if k == "replace":
            old, new, mode = op[1], op[2], op[3]
            if mode in ("cls", "setattr"):
                cls = _kcls(self.case["nodes"][new - 1][0])
                cap = []
                had = "__init__" in cls.__dict__
                orig = cls.__init__

                def init(obj, *a, **kw):
                    orig(obj, *a, **kw)
                    obj.recovery = None
                    if not cap:
                        self.nodes[new] = obj
                        self._register(new)       # from here on its channels take part in the edit
                    cap.append(obj)
                cls.__init__ = init
                try:
                    if mode == "cls":
                        self.comp.replace_child(self.nodes[old], cls)
                    else:
                        setattr(self.comp, self.nodes[old].label, cls)
                finally:
                    if had:
                        cls.__init__ = orig
                    else:
                        del cls.__init__
            elif mode == "label":
                self.comp.replace_child(self.nodes[old].label, self.nodes[new])
            else:
                self.comp.replace_child(self.nodes[old], self.nodes[new])
        elif k == "copy_io":
            self.nodes[op[1]].copy_io(self.nodes[op[2]], connections_fail_hard=op[3], values_fail_hard=op[4])
        elif k == "copy_conns":
            self.chan[op[1]].copy_connections(self.chan[op[2]])
        elif k == "wire":
            self.comp.set_run_signals_to_dag_execution()
        else:
            raise ValueError(f"unknown op {op!r}")


def _fill(snap, ref):
    """channels / nodes that do not exist (a class that was never instantiated): show them as in [ref]"""
    out = []
    for part, rpart in zip(snap, ref, strict=True):
        out.append([r if x is None else x for x, r in zip(part, rpart, strict=True)] if part and None in part else part)
    return out


def virgin_snapshot(case):
    """what the snapshot shows for the never-built class candidate: its defaults, label of the old node"""
    st = statics(case)
    vals = {c: v for c, v in case["vals"]}
    labels = [case.get("labels", {}).get(str(i), i) for i in range(len(case["nodes"]) + 1)]
    data = [c for c in range(len(st)) if st[c][2] < 2]
    return [[], labels, [-1] * len(labels), [], [[] for _ in st], [vals.get(c, []) for c in data], [-1 for _ in data], []]


def run_impl(case):
    if case.get("compat"):       # the model's hint tables against the real functions
        from pyiron_workflow.type_hinting import type_hint_is_as_or_more_specific_than as more_specific, valid_value
        return [[int(bool(more_specific(ho, hi))) for _o, ho in HTAGS for _i, hi in HTAGS],
                [int(bool(valid_value(v, h))) for v in (3, "s3") for _t, h in HTAGS]]
    u = Universe(case)
    virgin = virgin_snapshot(case)
    before = _fill(u.snapshot(), virgin)
    case["_orders"] = u.orders() if case["op"][0] == "wire" else u.tree_order(case["op"][1]) \
        if case["op"][0] == "pull" else []
    with Fault(case.get("fault"), u) as f:
        try:
            u.apply(case["op"])
            code = 0
        except RecursionError:
            code = 11
        except Exception as e:      # noqa: BLE001 -- every library exception is an outcome
            code = EXC.get(type(e).__name__, type(e).__name__)
    after = _fill(u.snapshot(), virgin)
    if case["op"][0] == "wire" and code == 0:       # a set of labels decides the order of the new starting nodes
        kids = after[0]
        after[3] = sorted(after[3], key=lambda n: kids.index(n) if n in kids else 99)
    return [code, before, after, [int(f.fired), int(f.in_handler)]]


def model_view(case, obs):
    if case.get("compat") or not isinstance(obs, list) or len(obs) != 4:
        return obs
    if obs[0] == 11 or (obs[0] == 0 and case["op"][0] == "pull"):
        return [obs[0], obs[1]]      # (a pull whose derivation succeeds goes on to run nodes: not modelled)
    return obs[:3]


# ---- the model term ------------------------------------------------------------------------------------
def _pairs(ps):
    return cl(f"({cn(a)}, {cn(b)})" for a, b in ps)


def _val(v):
    return f"(VI {cz(v[1])})" if v[0] == 1 else f"(VS {cz(v[1])})"


def world_coq(case):
    rows = []
    for (o, l, pi, hint, strict) in statics(case):
        h = "None" if hint is None else f"(Some {hint})"
        rows.append(f"mkc {cn(o)} {cn(l)} {PANELS[pi]} {h} {cb(strict)}")
    return cl(rows)


def init_coq(case):
    st = statics(case)
    recv = []
    if case["comp"] == "mac":
        ins = [c for c, s in enumerate(st) if s[0] == 0 and s[2] == 0]
        outs = [c for c, s in enumerate(st) if s[0] == 0 and s[2] == 1]
        recv = list(zip(ins, case["links_in"])) + list(zip(case["links_out"], outs))
    parents = []
    labels = list(range(len(case["nodes"]) + 1))
    for i, (_k, role) in enumerate(case["nodes"], start=1):
        if role == "child":
            parents.append((i, 0))
        elif role == "owned":
            parents.append((i, OTHER))
        labels[i] = case.get("labels", {}).get(str(i), i)
    kids = [i for i, (_k, role) in enumerate(case["nodes"], start=1) if role == "child"]
    f = case.get("fault") or [None, 0]
    vals = cl(f"({cn(c)}, {_val(v)})" for c, v in case["vals"] if v)
    return (f"(init_state {_pairs(case['edges'])} {vals} {_pairs(recv)} {_pairs(parents)} "
            f"{cl(cn(x) for x in labels)} {cl(cn(x) for x in kids)} {cl(cn(x) for x in case['start'])} "
            f"{cn(f[1] if f[0] == 'c' else 0)} {cn(f[1] if f[0] == 'v' else 0)} {cn(f[1] if f[0] == 'l' else 0)})")


def op_coq(case):
    op = case["op"]
    k = op[0]
    if k == "replace":
        return f"(OReplace {cn(op[1])} {cn(op[2])} {cb(op[3] in ('cls', 'setattr'))})"
    if k == "copy_io":
        return f"(OCopyIO {cn(op[1])} {cn(op[2])} {cb(op[3])} {cb(op[4])})"
    if k == "copy_conns":
        return f"(OCopyConns {cn(op[1])} {cn(op[2])})"
    if k == "wire":
        if "_orders" not in case:
            run_impl(case)
        return "(OWire " + cl(cl(cn(x) for x in o) for o in case["_orders"]) + ")"
    if k == "pull":
        if "_orders" not in case:
            run_impl(case)
        return f"(OPull {cn(op[1])} " + cl(cn(x) for x in case["_orders"]) + ")"
    raise ValueError(op)


def model_term(case):
    if case.get("compat"):
        return ("OL [OL " + cl(f"ob (compat {o} {i})" for o, _ho in HTAGS for i, _hi in HTAGS) + "; OL "
                + cl(f"ob (valid {v} {t})" for v in ("(VI 3)", "(VS 3)") for t, _h in HTAGS) + "]")
    if case["comp"] == "wf":
        wm = "(Some " + cl(f"({cn(nl)}, {cn(chl)}, {cb(inp)}, {cn(key)})" for nl, chl, inp, key in case.get("wmap") or []) + ")"
    else:
        wm = "None"
    return f"run_case {world_coq(case)} {cn(len(case['nodes']) + 1)} 0 {wm} {init_coq(case)} {op_coq(case)}"


# ---- the property, checked on the implementation's observation ----------------------------------------
def _norm(snap):
    return [sorted(snap[0])] + snap[1:]


def _describe_diff(case, b, a):
    names = ["children", "labels", "parents", "starting nodes", "connections", "values", "value links", "children keys"]
    st = statics(case)
    data = [c for c in range(len(st)) if st[c][2] < 2]
    for part, (x, y) in enumerate(zip(_norm(b), _norm(a))):
        if x == y:
            continue
        if part in (0, 3, 7):
            return f"{names[part]} {x} -> {y}"
        for i, (p, q) in enumerate(zip(x, y)):
            if p != q:
                what = (f"channel {i}" if part == 4 else f"channel {data[i]}" if part > 4 else f"node {i}")
                return f"{names[part]} of {what}: {p} -> {q}"
    return "?"


def counterpart(case, c, new):
    st = statics(case)
    return chan_of(case, new, st[c][2], st[c][1])


def oracle(case, obs):
    if case.get("compat"):
        return None
    if not isinstance(obs, list) or len(obs) != 4:
        return f"shape: observation {str(obs)[:80]}"
    code, b, a, (fired, in_handler) = obs
    op = case["op"]
    if not isinstance(code, int):
        return f"unexpected-exception: {op[0]} raised {code}"
    if code == 11:
        return f"recursion: {op[0]} ended in RecursionError (the graph is left at an arbitrary point of the edit)"
    if code != 0:
        if in_handler:
            return None            # a second failure, inside an undo: outside the property's quantifier
        if op[0] == "replace" and op[3] in ("cls", "setattr"):
            # the instance the library made from the class did not exist before: its label is no part of the graph
            b = [b[0], [x if i != op[2] else None for i, x in enumerate(b[1])]] + b[2:]
            a = [a[0], [x if i != op[2] else None for i, x in enumerate(a[1])]] + a[2:]
        if _norm(a) != _norm(b):
            return (f"not-atomic: {op[0]} failed ({EXC_INV.get(code, code)}) but the graph changed: "
                    + _describe_diff(case, b, a))
        return None
    if op[0] != "replace":
        return None
    # ---- a successful replacement inherits the old node's place -------------------------------------
    st = statics(case)
    old, new = op[1], op[2]
    kb, lb, pb, sb, cb_, vb, rb, keyb = b
    ka, la, pa, sa, ca, va, ra, keya = a
    if la[new] != lb[old]:
        return f"inherit-label: the replacement is labelled {la[new]}, the old node was {lb[old]}"
    if pa[new] != 0 or new not in ka:
        return "inherit-parent: the replacement is not a child of the composite"
    if old in ka or pa[old] != -1:
        return "inherit-parent: the replaced node is still owned"
    if sorted(ka) != sorted([k for k in kb if k != old] + [new]):
        return f"children: {kb} -> {ka}"
    labelled = [la[k] if 0 <= k < len(la) else None for k in ka]       # (an unknown child has no label here)
    if sorted(keya) != sorted(x for x in labelled if x is not None) or None in labelled:
        return f"children-keys: the children are held under {keya} but are labelled {labelled}"
    if (old in sb) != (new in sa) or old in sa:
        return f"inherit-start: starting nodes {sb} -> {sa}"
    if [n for n in sa if n != new] != [n for n in sb if n != old]:
        return f"start: the other starting nodes changed {sb} -> {sa}"
    for n in range(len(la)):
        if n not in (old, new) and (la[n] != lb[n] or pa[n] != pb[n]):
            return f"bystander: label/parent of node {n} changed"
    data = [c for c in range(len(st)) if st[c][2] < 2]
    didx = {c: i for i, c in enumerate(data)}
    sub = {}
    for c in range(len(st)):
        if st[c][0] == old:
            sub[c] = counterpart(case, c, new)
    # value links
    for c in data:
        r = rb[didx[c]]
        if st[c][0] == 0 and r in sub:                     # macro input -> input of the old node
            if sub[r] is None or ra[didx[c]] != sub[r]:
                return f"inherit-link: macro channel {c} was linked to channel {r} of the old node, now to {ra[didx[c]]}"
        elif st[c][0] == old and 0 <= r < len(st) and st[r][0] == 0:   # output of the old node -> macro output
            if sub[c] is None or ra[didx[sub[c]]] != r:
                return f"inherit-link: channel {c} of the old node fed macro channel {r}; the replacement does not"
        elif st[c][0] not in (old, new) and ra[didx[c]] != r:
            return f"bystander: value link of channel {c} changed"
    # connections, with their position
    for c in range(len(st)):
        if st[c][0] == old:
            if cb_[c] and sub[c] is None:
                return f"inherit-conn: connected channel {c} of the old node has no counterpart but the edit succeeded"
            exp = [sub.get(p, p) for p in cb_[c]]       # (a connection of the old node to itself becomes one of the new)
            if sub[c] is not None and ca[sub[c]] != exp:
                kind = "inherit-conn" if sorted(ca[sub[c]]) != sorted(exp) else "inherit-order"
                return f"{kind}: channel {c} of the old node had {cb_[c]}, its counterpart has {ca[sub[c]]} not {exp}"
        elif st[c][0] != new:
            exp = [sub.get(p, p) for p in cb_[c]]
            if ca[c] != exp:
                kind = "inherit-conn" if sorted(ca[c]) != sorted(exp) else "inherit-order"
                return f"{kind}: neighbour channel {c} should list {exp} (old node swapped in place), lists {ca[c]}"
    for c in data:
        if st[c][0] not in (old, new) and va[didx[c]] != vb[didx[c]]:
            # a macro channel linked to the replaced node may legitimately be refreshed by the link
            if not (st[c][0] == 0 and (rb[didx[c]] in sub or any(rb[didx[o]] == c for o in sub if o in didx))):
                return f"bystander: value of channel {c} changed {vb[didx[c]]} -> {va[didx[c]]}"
    return None


# ---- known findings: cause predicates over the case ------------------------------------------------------
def _graph(case):
    """ordered connection lists of the initial graph, from the case alone"""
    st = statics(case)
    cons = [[] for _ in st]
    for a, b in case["edges"]:
        cons[a].insert(0, b)
        cons[b].insert(0, a)
    return st, cons


def _links(case):
    """(sender, receiver) value links of the initial graph"""
    if case["comp"] != "mac":
        return []
    st = statics(case)
    ins = [c for c, s in enumerate(st) if s[0] == 0 and s[2] == 0]
    outs = [c for c, s in enumerate(st) if s[0] == 0 and s[2] == 1]
    return list(zip(ins, case["links_in"])) + list(zip(case["links_out"], outs))


def cause_shared(case):
    """the receiving channel(s) already share a connection with the channel(s) copied from"""
    st, cons = _graph(case)
    op = case["op"]
    if op[0] == "copy_conns":
        return bool(set(cons[op[1]]) & set(cons[op[2]]))
    if op[0] == "copy_io":
        dst, src = op[1], op[2]
        for c in range(len(st)):
            if st[c][0] == src:
                m = counterpart(case, c, dst)
                if m is not None and set(cons[c]) & set(cons[m]):
                    return True
    return False


def cause_missing_linked(case):
    """replace_child: a value-linked channel of the old node has no counterpart on the candidate"""
    op = case["op"]
    if op[0] != "replace":
        return False
    st = statics(case)
    for s, r in _links(case):
        c = r if st[r][0] == op[1] else s if st[s][0] == op[1] else None
        if c is not None and counterpart(case, c, op[2]) is None:
            return True
    return False


def cause_reforge(case):
    """replace_child: every linked channel exists on the candidate, but re-forging a link can raise: hint
    mismatch, the pushed value is refused, or a link / value transfer was made to fail"""
    op = case["op"]
    if op[0] != "replace" or cause_missing_linked(case):
        return False
    st = statics(case)
    mine = [(s, r) for s, r in _links(case) if op[1] in (st[s][0], st[r][0])]
    if not mine:
        return False
    if (case.get("fault") or [None])[0] in ("l", "v"):
        return True
    vals = {c: v for c, v in case["vals"]}
    for s, r in mine:
        s2 = counterpart(case, s, op[2]) if st[s][0] == op[1] else s
        r2 = counterpart(case, r, op[2]) if st[r][0] == op[1] else r
        hs, hr = st[s2][3], st[r2][3]
        if hs is not None and hr is not None and st[r2][4] and not compat(hs, hr):
            return True
        if hr is not None and st[r2][4]:
            # the value the sender holds when the link is forged: its own, or the one copied from the old node
            cands = [vals.get(s2, []), vals.get(s, [])]
            if any(not valid(v, hr) for v in cands):
                return True
    return False


def cause_order(case):
    """replace_child: some channel of the old node has >= 2 connections, or the old node is not the newest
    connection of one of its neighbours, or a neighbour channel is connected to two channels of the old node"""
    op = case["op"]
    if op[0] != "replace":
        return False
    st, cons = _graph(case)
    for c in range(len(st)):
        if st[c][0] == op[1] and len(cons[c]) >= 2:
            return True
        if st[c][0] != op[1]:
            mine = [i for i, p in enumerate(cons[c]) if st[p][0] == op[1]]
            if mine and (mine != [0]):
                return True
    return False


def cause_two_logs(case):
    """copy_io(values_fail_hard=True): the inputs panel transfers a value and the OUTPUTS panel can fail (an output
    value of the source has no counterpart / is refused by the counterpart or its value receiver, or a value transfer
    was made to fail)"""
    op = case["op"]
    if op[0] != "copy_io" or not op[4]:
        return False
    st = statics(case)
    vals = {c: v for c, v in case["vals"]}
    src_in = [c for c in range(len(st)) if st[c][0] == op[2] and st[c][2] == 0 and vals.get(c)]
    if not any(counterpart(case, c, op[1]) is not None for c in src_in):
        return False
    if (case.get("fault") or [None])[0] == "v":
        return True
    recv = dict(_links(case))
    for c in range(len(st)):
        if st[c][0] == op[2] and st[c][2] == 1 and vals.get(c):
            m = counterpart(case, c, op[1])
            if m is None:
                return True
            while m is not None:                      # the counterpart, then down its value links
                if st[m][4] and not valid(vals[c], st[m][3]):
                    return True
                m = recv.get(m)
    return False


def cause_receiver_undo(case):
    """copy_io(values_fail_hard=True) onto a channel whose value receiver holds a different value"""
    op = case["op"]
    if op[0] != "copy_io" or not op[4]:
        return False
    st = statics(case)
    vals = {c: v for c, v in case["vals"]}
    for s, r in _links(case):
        if st[s][0] == op[1] and vals.get(s, []) != vals.get(r, []):
            return True
    return False


def _data_tree(case, target):
    """the nodes upstream of [target] through data connections (target included), from the case alone"""
    st, cons = _graph(case)
    seen, todo = [], [target]
    while todo:
        n = todo.pop()
        if n in seen:
            continue
        seen.append(n)
        for c in range(len(st)):
            if st[c][0] == n and st[c][2] == 0:
                todo.extend(st[p][0] for p in cons[c])
    return seen


def _data_tree_strict(case, n):
    """the nodes strictly upstream of [n]"""
    st, cons = _graph(case)
    out = []
    for c in range(len(st)):
        if st[c][0] == n and st[c][2] == 0:
            for p in cons[c]:
                out.extend(_data_tree(case, st[p][0]))
    return out


def cause_wire_multi(case):
    """flow derivation: a run / accumulate_and_run / ran channel of a child, or one of their partners, has
    >= 2 connections (re-connecting prepends, so the restored lists come back in another order)"""
    if case["op"][0] not in ("wire", "pull"):
        return False
    st, cons = _graph(case)
    kids = [i for i, (_k, role) in enumerate(case["nodes"], start=1) if role == "child"]
    if case["op"][0] == "pull":
        kids = _data_tree(case, case["op"][1])
    for c in range(len(st)):
        if st[c][0] in kids and st[c][2] >= 2 and st[c][1] in (LIDX["run"], LIDX["accumulate_and_run"], LIDX["ran"]):
            if len(cons[c]) >= 2 or any(len(cons[p]) >= 2 for p in cons[c]):
                return True
    return False


def known(case, obs, verdict):
    if case.get("compat") or not isinstance(obs, list) or len(obs) != 4:
        return None
    code = obs[0]
    op = case["op"]
    sig = verdict.split(":")[0]
    fault = (case.get("fault") or [None, 0])[0]
    if sig == "inherit-order" and cause_order(case):
        return "S13-replace-priority-not-inherited"
    if sig == "not-atomic":
        if op[0] in ("copy_conns", "copy_io") and cause_shared(case):
            return "S13-copy-undo-drops-shared-connection"
        if op[0] == "copy_io" and code in (7, 10, 1) and cause_receiver_undo(case):
            return "C14-copy-values-undo-through-receiver"
        if op[0] == "copy_io" and code == 7 and cause_two_logs(case):
            return "C14-copy-values-two-undo-logs"
        if op[0] == "replace" and code == 4 and cause_missing_linked(case):
            return "S13-replace-missing-linked-channel"
        if op[0] == "replace" and code in (3, 1, 10) and cause_reforge(case):
            return "S13-replace-link-reforge-after-swap"
        if op[0] == "wire" and code == 10 and fault == "c":
            return "C14-wire-fault-keeps-new-connections"
        if op[0] in ("wire", "pull") and cause_wire_multi(case):
            return "C14-wire-restore-reorders"
        return None
    return None


def nontrivial(case, obs):
    if case.get("compat") or not isinstance(obs, list) or len(obs) != 4:
        return False
    if obs[0] != 0:
        return True
    _st, cons = _graph(case)
    return any(len(r) >= 2 for r in cons)


def key(case):
    return {k: v for k, v in case.items() if not k.startswith("_")}


def distribution(results):
    d = {"ops": {}, "outcomes": {}, "faults": {"none": 0, "c": 0, "v": 0, "l": 0, "fired": 0, "fired_in_undo": 0},
         "composite": {"wf": 0, "mac": 0}, "verdicts": {}}
    for c, enc, v, o in results:
        if c.get("compat"):
            continue
        k = c["op"][0] + (":" + c["op"][3] if c["op"][0] == "replace" else "")
        d["ops"][k] = d["ops"].get(k, 0) + 1
        d["composite"][c["comp"]] += 1
        f = c.get("fault")
        d["faults"][f[0] if f else "none"] += 1
        if isinstance(o, list) and len(o) == 4:
            name = EXC_INV.get(o[0], "ok" if o[0] == 0 else str(o[0]))
            d["outcomes"][name] = d["outcomes"].get(name, 0) + 1
            d["faults"]["fired"] += o[3][0]
            d["faults"]["fired_in_undo"] += o[3][1]
        if v:
            s = v.split(":")[0]
            d["verdicts"][s] = d["verdicts"].get(s, 0) + 1
    return d


def corpus(ctx):
    out = []
    for p in sorted((lib.VERIF / "corpus" / PROP).glob("*.json")):
        out.extend(json.loads(p.read_text()))
    return out


# ---- generators ----------------------------------------------------------------------------------------------
def _chans(case, node, pi):
    return [c for (_l, c) in layout(case).get((node, pi), [])]


def _sig(case, node, label):
    pi = 2 if label in ("run", "accumulate_and_run") else 3
    return chan_of(case, node, pi, LIDX[label])


def _rand_val(rng, hint):
    if hint == "HInt":
        return [1, rng.randrange(1, 9)]
    if hint == "HStr":
        return [2, rng.randrange(1, 9)]
    return rng.choice([[1, rng.randrange(1, 9)], [2, rng.randrange(1, 9)]])


def _add_edges(rng, case, nodes, n_data, n_sig, force_multi=True, self_loops=False):
    """random valid connections among [nodes] (several per channel on purpose)"""
    st = statics(case)
    have = set()
    ins = [c for n in nodes for c in _chans(case, n, 0)]
    outs = [c for n in nodes for c in _chans(case, n, 1)]
    sins = [c for n in nodes for c in _chans(case, n, 2)]
    souts = [c for n in nodes for c in _chans(case, n, 3) if st[c][1] == LIDX["ran"]]

    def add(a, b):
        if (a, b) in have or (st[a][0] == st[b][0] and not self_loops) or not conn_ok(st, a, b):
            return False
        have.add((a, b))
        case["edges"].append([a, b])
        return True
    tries = 0
    made = 0
    while made < n_data and tries < 60 and ins and outs:
        tries += 1
        if force_multi and have and rng.random() < 0.45:       # pile onto a channel that is already connected
            a0, b0 = rng.choice(sorted(have))
            a, b = (a0, rng.choice(outs)) if rng.random() < 0.5 else (rng.choice(ins), b0)
            if st[a][2] != 0 or st[b][2] != 1:
                continue
        else:
            a, b = rng.choice(ins), rng.choice(outs)
        made += add(a, b)
    tries = made = 0
    while made < n_sig and tries < 40 and sins and souts:
        tries += 1
        made += add(rng.choice(sins), rng.choice(souts))


def _fill_vals(rng, case, p_data=0.7):
    st = statics(case)
    vals = {c: v for c, v in case["vals"]}
    for o, (kind, role) in enumerate(case["nodes"], start=1):
        if role == "cls":          # a class is instantiated by the library: its channels hold the defaults
            mine = [c for c in range(len(st)) if st[c][0] == o and st[c][2] < 2]
            dflt = [x[3] for x in kind_io(kind) if x[1] < 2]
            for c, d in zip(mine, dflt, strict=True):
                vals[c] = d
    recv_hint = {s_: st[r_][3] for s_, r_ in _links(case)}
    for c, (o, _l, pi, hint, _s) in enumerate(st):
        if pi < 2 and c not in vals and rng.random() < p_data:
            for _ in range(8):            # a sender's value must also suit its receiver
                v = _rand_val(rng, hint if hint is not None else recv_hint.get(c))
                if valid(v, hint) and valid(v, recv_hint.get(c)):
                    vals[c] = v
                    break
    case["vals"] = sorted([c, v] for c, v in vals.items() if v)


def _transfers(case):
    """upper bounds on the number of (connections, value assignments, link assignments) an edit can make"""
    st, cons = _graph(case)
    n_c = sum(len(r) for r in cons) + 2
    n_v = 2 * sum(1 for s in st if s[2] < 2) + 2
    return n_c, n_v, 4


CANDS = ["same", "twin", "extra", "no-z", "no-y", "x:str", "y:str", "loose", "bare", "z:int", "owned", "connected",
         "cls", "setattr", "label"]
CAND_KIND = {"twin": 1, "extra": 2, "no-z": 3, "no-y": 4, "x:str": 5, "y:str": 6, "loose": 7, "bare": 8, "z:int": 9}


def gen_replace(rng, comp=None, cand=None, fault="rand"):
    comp = comp or rng.choice(["wf", "mac", "mac"])
    case = {"comp": comp, "nodes": [], "edges": [], "start": [], "vals": [], "op": None, "fault": None}
    nchild = rng.choice([2, 3, 3, 4])
    base_kinds = [0, 0, 0, 7, 8, 2, 9, 1]
    if comp == "mac":
        case["mcls"] = rng.choice([0, 0, 1, 2, 3])
    kinds = [rng.choice(base_kinds) for _ in range(nchild)]
    if comp == "mac" and case["mcls"] == 2:
        kinds[0] = rng.choice([5, 7, 8])            # a child that can take the str input of MC
        kinds[-1] = 6 if rng.random() < 0.7 else 8   # and one whose output fits its str output
    case["nodes"] = [[k, "child"] for k in kinds]
    # a foreign neighbour now and then
    if rng.random() < 0.3:
        case["nodes"].append([rng.choice([0, 8]), "free"])
    st = statics(case)
    if comp == "mac":
        ins, outs = MAC_IO[case["mcls"]]
        pool_in = [c for i in range(1, nchild + 1) for c in _chans(case, i, 0)]
        pool_out = [c for i in range(1, nchild + 1) for c in _chans(case, i, 1)]
        li = []
        for (_l, h) in ins:
            ok = [c for c in pool_in if c not in li and (h is None or st[c][3] is None or compat(h, st[c][3]))]
            if not ok:
                return None
            li.append(rng.choice(ok))
        lo = []
        for (_l, h) in outs:
            ok = [c for c in pool_out if c not in lo and (h is None or st[c][3] is None or compat(st[c][3], h))]
            if not ok:
                return None
            lo.append(rng.choice(ok))
        case["links_in"], case["links_out"] = li, lo
    everyone = list(range(1, len(case["nodes"]) + 1))
    _add_edges(rng, case, everyone, rng.choice([2, 3, 4, 5, 6]), rng.choice([0, 1, 2, 3, 4]),
               self_loops=rng.random() < 0.12)
    if rng.random() < 0.1:
        loose_in = [c for c in range(len(st)) if st[c][2] == 0 and st[c][0] > 0 and st[c][3] is not None]
        if loose_in:
            case["loose"] = [rng.choice(loose_in)]
    case["start"] = sorted(rng.sample(range(1, nchild + 1), rng.choice([0, 1, 1, 2])))
    # the node to replace: prefer one with links / several connections
    st, cons = _graph(case)
    linked = {st[c][0] for c in case.get("links_in", []) + case.get("links_out", [])}
    busy = [i for i in range(1, nchild + 1) if any(len(cons[c]) >= 2 for c in range(len(st)) if st[c][0] == i)]
    pick = rng.random()
    old = rng.choice(sorted(linked)) if linked and pick < 0.45 else rng.choice(busy) if busy and pick < 0.8 \
        else rng.randrange(1, nchild + 1)
    cand = cand or rng.choice(CANDS)
    role, mode = "free", "inst"
    kind = kinds[old - 1] if cand in ("same", "owned", "connected", "cls", "setattr", "label") else CAND_KIND[cand]
    if cand == "owned":
        role = "owned"
    if cand in ("cls", "setattr"):
        role, mode = "cls", cand
        if rng.random() < 0.5:
            kind = rng.choice([0, 2, 3, 5, 7])
    if cand == "label":
        mode = "label"
    case["nodes"].append([kind, role])
    new = len(case["nodes"])
    if cand == "connected":
        case["nodes"].append([0, "free"])
        _add_edges(rng, case, [new, new + 1], 1, rng.choice([0, 1]), force_multi=False)
        if not any(statics(case)[a][0] == new or statics(case)[b][0] == new for a, b in case["edges"]):
            return None
    if comp == "wf" and rng.random() < 0.15:
        st, cons = _graph(case)
        ent = []
        for c in range(len(st)):
            if 0 < st[c][0] <= nchild and st[c][2] < 2 and rng.random() < 0.25 and len(ent) < 2:
                keyl = rng.choice([st[c][1], LIDX["bx"] if st[c][2] == 0 else LIDX["by"]])
                if all(e[3] != keyl or e[2] != (st[c][2] == 0) for e in ent):
                    ent.append([st[c][0], st[c][1], st[c][2] == 0, keyl])
        case["wmap"] = ent
    _fill_vals(rng, case)
    if comp == "mac" and rng.random() < 0.25:
        # an untyped macro input holding a value the candidate's typed input may refuse
        vals = {c: v for c, v in case["vals"]}
        st = statics(case)
        rh = {s_: st[r_][3] for s_, r_ in _links(case)}
        for c in range(len(st)):
            if st[c][0] == 0 and st[c][2] == 0 and st[c][3] is None and valid([2, 5], rh.get(c)):
                vals[c] = [2, 5]
        case["vals"] = sorted([c, v] for c, v in vals.items())
    case["op"] = ["replace", old, new, mode]
    if fault == "rand":
        n_c, n_v, n_l = _transfers(case)
        r = rng.random()
        if r < 0.45:
            case["fault"] = None
        elif r < 0.75:
            case["fault"] = ["c", rng.randrange(1, n_c)]
        elif r < 0.88:
            case["fault"] = ["v", rng.randrange(1, n_v)]
        else:
            case["fault"] = ["l", rng.randrange(1, n_l)]
    else:
        case["fault"] = fault
    return case


def gen_copy(rng, fault="rand"):
    """copy_io / copy_connections between two nodes that may already share neighbours"""
    comp = rng.choice(["wf", "wf", "mac"])
    case = {"comp": comp, "nodes": [], "edges": [], "start": [], "vals": [], "op": None, "fault": None}
    if comp == "mac":
        case["mcls"] = rng.choice([0, 0, 3, 3, 1])
    nchild = rng.choice([2, 3])
    kinds = [rng.choice([0, 0, 7, 8, 2, 9]) for _ in range(nchild)]
    case["nodes"] = [[k, "child"] for k in kinds]
    for _ in range(rng.choice([1, 2, 2])):
        case["nodes"].append([rng.choice([0, 0, 1, 2, 3, 4, 5, 6, 7, 8, 9]), "free"])
    onto_macro = None
    if comp == "mac" and rng.random() < 0.45:
        # the macro itself gives / takes the IO of a node with its channel labels: values travel down the value links
        case["nodes"].append([10, "free"])
        onto_macro = len(case["nodes"])
    st = statics(case)
    if comp == "mac":
        ins, outs = MAC_IO[case["mcls"]]
        pool_in = [c for i in range(1, nchild + 1) for c in _chans(case, i, 0)]
        pool_out = [c for i in range(1, nchild + 1) for c in _chans(case, i, 1)]
        li, lo = [], []
        for (_l, h) in ins:
            ok = [c for c in pool_in if c not in li and (h is None or st[c][3] is None or compat(h, st[c][3]))]
            if not ok:
                return None
            li.append(rng.choice(ok))
        for (_l, h) in outs:
            ok = [c for c in pool_out if c not in lo and (h is None or st[c][3] is None or compat(st[c][3], h))]
            if not ok:
                return None
            lo.append(rng.choice(ok))
        case["links_in"], case["links_out"] = li, lo
    everyone = list(range(1, len(case["nodes"]) + 1))
    _add_edges(rng, case, everyone, rng.choice([3, 4, 5, 6, 7]), rng.choice([0, 1, 2, 3]))
    _fill_vals(rng, case, p_data=0.8)
    if comp == "mac" and rng.random() < 0.5:
        # out-of-sync value link: the macro output holds something else than the child output feeding it
        vals = {c: v for c, v in case["vals"]}
        st = statics(case)
        for s, r in _links(case):
            if st[r][0] == 0 and st[r][2] == 1:
                vals[r] = _rand_val(rng, st[r][3])
        case["vals"] = sorted([c, v] for c, v in vals.items())
    st, cons = _graph(case)
    if rng.random() < 0.3:
        # channel level
        pi = rng.choice([0, 0, 1, 2, 3])
        pool = [c for c in range(len(st)) if st[c][2] == pi and st[c][0] > 0]
        src = [c for c in pool if cons[c]]
        if not src:
            return None
        o = rng.choice(src)
        a = rng.choice([c for c in pool if c != o] or pool)
        case["op"] = ["copy_conns", a, o]
    else:
        dst, src = rng.sample(everyone, 2)
        if comp == "mac" and onto_macro is not None:
            dst, src = (0, onto_macro) if rng.random() < 0.8 else (onto_macro, 0)
        case["op"] = ["copy_io", dst, src, rng.random() < 0.8, rng.random() < 0.5]
    if fault == "rand":
        n_c, n_v, _n_l = _transfers(case)
        r = rng.random()
        case["fault"] = None if r < 0.4 else ["c", rng.randrange(1, n_c)] if r < 0.75 else ["v", rng.randrange(1, n_v)]
    else:
        case["fault"] = fault
    return case


def gen_wire(rng, fault="rand"):
    comp = rng.choice(["wf", "wf", "mac"])
    case = {"comp": comp, "nodes": [], "edges": [], "start": [], "vals": [], "op": ["wire"], "fault": None}
    if comp == "mac":
        case["mcls"] = 3
    nchild = rng.choice([2, 3, 3, 4])
    case["nodes"] = [[rng.choice([0, 0, 7, 8]), "child"] for _ in range(nchild)]
    foreign = rng.random() < 0.25
    if foreign:
        case["nodes"].append([0, "free"])
        if rng.random() < 0.4:
            case["labels"] = {str(nchild + 1): rng.randrange(1, nchild + 1)}     # same label as a child
    st = statics(case)
    if comp == "mac":
        case["links_in"] = [rng.choice(_chans(case, 1, 0))]
        ok = [c for i in range(1, nchild + 1) for c in _chans(case, i, 1)]
        case["links_out"] = [rng.choice(ok)]
    # data: a DAG in the numbering, sometimes with a back edge / self loop / foreign upstream
    shape = rng.choice(["dag", "dag", "cycle", "self", "foreign"] if foreign else ["dag", "dag", "dag", "cycle", "self"])
    have = set()

    def add(a, b):
        if a is None or b is None or (a, b) in have or not conn_ok(st, a, b):
            return
        have.add((a, b))
        case["edges"].append([a, b])
    for _ in range(rng.choice([1, 2, 3, 4, 5])):
        i, j = sorted(rng.sample(range(1, nchild + 1), 2))
        add(rng.choice(_chans(case, j, 0)), rng.choice(_chans(case, i, 1)))
    if shape == "cycle":
        i, j = sorted(rng.sample(range(1, nchild + 1), 2))
        add(rng.choice(_chans(case, j, 0)), rng.choice(_chans(case, i, 1)))
        add(rng.choice(_chans(case, i, 0)), rng.choice(_chans(case, j, 1)))
    elif shape == "self":
        i = rng.randrange(1, nchild + 1)
        add(rng.choice(_chans(case, i, 0)), rng.choice(_chans(case, i, 1)))
    elif shape == "foreign":
        add(rng.choice(_chans(case, rng.randrange(1, nchild + 1), 0)), rng.choice(_chans(case, nchild + 1, 1)))
    # hand-made run / ran wiring, several per channel, also towards the foreign node
    everyone = list(range(1, len(case["nodes"]) + 1))
    for _ in range(rng.choice([0, 1, 2, 3, 4, 5])):
        i, j = rng.sample(everyone, 2)
        add(_sig(case, i, rng.choice(["run", "run", "accumulate_and_run"])), _sig(case, j, "ran"))
    case["start"] = sorted(rng.sample(range(1, nchild + 1), rng.choice([0, 1, 2])))
    _fill_vals(rng, case, p_data=0.3)
    if fault == "rand":
        n_c, _n_v, _n_l = _transfers(case)
        case["fault"] = None if rng.random() < 0.5 else ["c", rng.randrange(1, n_c + 3)]
    else:
        case["fault"] = fault
    return case


def gen_pull(rng, fault="rand"):
    """a pull whose flow derivation is refused: the data tree above the pulled node crosses scopes (a child fed by
    a parentless / foreign-owned node, or the other way round), or it is cyclic"""
    comp = rng.choice(["wf", "wf", "mac"])
    case = {"comp": comp, "nodes": [], "edges": [], "start": [], "vals": [], "op": None, "fault": None}
    if comp == "mac":
        case["mcls"] = 3
    nchild = rng.choice([2, 3, 3])
    case["nodes"] = [[rng.choice([0, 0, 7, 8]), "child"] for _ in range(nchild)]
    for _ in range(rng.choice([1, 1, 2])):
        case["nodes"].append([rng.choice([0, 0, 8]), rng.choice(["free", "free", "free", "owned"])])
    nn = len(case["nodes"])
    if rng.random() < 0.3:
        case["labels"] = {str(rng.randrange(nchild + 1, nn + 1)): rng.randrange(1, nchild + 1)}   # an outsider named like a child
    st = statics(case)
    if comp == "mac":
        case["links_in"] = [rng.choice(_chans(case, 1, 0))]
        case["links_out"] = [rng.choice([c for i in range(1, nchild + 1) for c in _chans(case, i, 1)])]
    have = set()

    def add(a, b):
        if a is None or b is None or (a, b) in have or not conn_ok(st, a, b):
            return
        have.add((a, b))
        case["edges"].append([a, b])
    shape = rng.choice(["cross", "cross", "cross", "cycle"])
    order = list(range(1, nn + 1))
    rng.shuffle(order)                     # a DAG in a random numbering: children and outsiders interleaved
    for _ in range(rng.choice([2, 3, 4, 5])):
        i, j = sorted(rng.sample(range(nn), 2))
        add(rng.choice(_chans(case, order[j], 0)), rng.choice(_chans(case, order[i], 1)))
    target = order[-1] if rng.random() < 0.7 else rng.choice(order)
    if shape == "cycle":
        i, j = rng.sample(range(1, nn + 1), 2)
        add(rng.choice(_chans(case, i, 0)), rng.choice(_chans(case, j, 1)))
        add(rng.choice(_chans(case, j, 0)), rng.choice(_chans(case, i, 1)))
        add(rng.choice(_chans(case, target, 0)), rng.choice(_chans(case, i, 1)))
    # hand-made run / ran wiring on the tree, single or several per channel
    for _ in range(rng.choice([0, 1, 1, 2, 3, 4])):
        i, j = rng.sample(range(1, nn + 1), 2)
        add(_sig(case, i, rng.choice(["run", "run", "accumulate_and_run"])), _sig(case, j, "ran"))
    case["start"] = sorted(rng.sample(range(1, nchild + 1), rng.choice([0, 1])))
    # only refused derivations: the tree is cyclic, or its nodes do not all have the same parent
    tree = _data_tree(case, target)
    roles = {("comp" if case["nodes"][n - 1][1] == "child" else case["nodes"][n - 1][1]) for n in tree}
    cyclic = any(n in _data_tree_strict(case, n) for n in tree)
    if not cyclic and len(roles) < 2:
        return None
    _fill_vals(rng, case, p_data=0.5)
    case["op"] = ["pull", target]
    if fault == "rand":
        n_c, _n_v, _n_l = _transfers(case)
        case["fault"] = None if rng.random() < 0.7 else ["c", rng.randrange(1, n_c)]
    else:
        case["fault"] = fault
    return case


def _with_faults(case, kinds=("c", "v", "l")):
    """the case under every single injected failure: one copy per (kind, k) up to the transfer bound"""
    n_c, n_v, n_l = _transfers(case)
    out = []
    for kind, n in (("c", n_c), ("v", n_v), ("l", n_l)):
        if kind in kinds:
            for k in range(1, n + 1):
                c2 = json.loads(json.dumps(key(case)))
                c2["fault"] = [kind, k]
                out.append(c2)
    return out


def generate(ctx):
    rng = ctx.rng
    cases = [{"compat": True}]
    seen = set()

    def push(c):
        if c is None:
            return False
        k = json.dumps(key(c), sort_keys=True)
        if k in seen:
            return False
        seen.add(k)
        cases.append(c)
        return True
    n_rep, n_copy, n_wire, n_pull = ctx.n(500, 5000), ctx.n(250, 2500), ctx.n(200, 2000), ctx.n(120, 1200)
    n = 0
    while n < n_rep:
        n += push(gen_replace(rng))
    # every candidate class against both composites, then every failure index on a few of them
    for comp in ("wf", "mac"):
        for cand in CANDS:
            for _ in range(ctx.n(2, 12)):
                push(gen_replace(rng, comp=comp, cand=cand, fault=None))
    for _ in range(ctx.n(6, 60)):
        base = gen_replace(rng, comp="mac", cand=rng.choice(["same", "twin", "extra", "loose", "x:str", "y:str", "z:int"]),
                           fault=None)
        if base is not None:
            for c2 in _with_faults(base):
                push(c2)
    n = 0
    while n < n_copy:
        n += push(gen_copy(rng))
    for _ in range(ctx.n(4, 40)):
        base = gen_copy(rng, fault=None)
        if base is not None:
            for c2 in _with_faults(base, kinds=("c", "v")):
                push(c2)
    n = 0
    while n < n_wire:
        n += push(gen_wire(rng))
    for _ in range(ctx.n(4, 40)):
        base = gen_wire(rng, fault=None)
        if base is not None:
            for c2 in _with_faults(base, kinds=("c",)):
                push(c2)
    n = 0
    while n < n_pull:
        n += push(gen_pull(rng))
    return cases


def shrink_candidates(case):
    if case.get("compat"):
        return
    case = json.loads(json.dumps(key(case)))
    if case.get("fault"):
        c2 = dict(case)
        c2["fault"] = None
        yield c2
        if case["fault"][1] > 1:
            c2 = dict(case)
            c2["fault"] = [case["fault"][0], case["fault"][1] - 1]
            yield c2
    for i in range(len(case["edges"])):
        c2 = dict(case)
        c2["edges"] = case["edges"][:i] + case["edges"][i + 1:]
        yield c2
    if case["start"]:
        c2 = dict(case)
        c2["start"] = case["start"][1:]
        yield c2
    for i in range(len(case["vals"])):
        c2 = dict(case)
        c2["vals"] = case["vals"][:i] + case["vals"][i + 1:]
        yield c2
    if case.get("wmap"):
        c2 = dict(case)
        c2["wmap"] = case["wmap"][1:]
        yield c2
    if case.get("loose"):
        c2 = dict(case)
        c2["loose"] = []
        yield c2
