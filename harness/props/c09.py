"""C09 -- a macro behaves exactly like its sub-graph, behind synchronized by-value IO.

A case = a macro DEFINITION (parameters with optional default / hint; a creation script whose
children are function nodes or nested definitions, with arguments Param i | Out j l | Const z;
returned channels with output labels, explicit or scraped from the return statement; automatic
or hand-wired flow) + a sequence of operations (input / output assignments at macro and child
level, at any depth; runs).

Implementation side: the definition is rendered as PYTHON SOURCE TEXT into a module file under
build/c09_gen/ (so inspect.signature / inspect.getsource / ast run on real source), imported,
instantiated, and the operations are applied to the real objects; after construction and after
every operation the wiring (children, value links, connections, signal wiring) resp. all channel
values (every depth) are recorded.  Model = coq/theories/Macro.v `oscenario` on the same case.
The oracle (independent of the model) checks the property on the recorded facts: preview and
instance IO = definition; macro channels are not the children's channel objects; children are
connected only to siblings; linked channel pairs hold equal values after every operation; every
successful run returns what (i) the same body in a plain Workflow and (ii) plain python
composition return.
"""
from __future__ import annotations

import hashlib
import importlib.util
import os
import json
import sys
import time

from harness import lib
from harness.lib import cl, cn, cs, cz

PROP = "C09"
IMPORTS = "Base Macro"
SHARD = 120
RULE = ("macro definitions grown from the script grammar (0-4 parameters used 0/1/many times, passed straight to "
        "outputs, fed to nested macros up to three levels, with/without defaults and int/object hints; 0-4 children; "
        "explicit or scraped output labels; automatic or hand-wired chain flow; some malformed: duplicate labels, "
        "half-specified flow, incompatible hints, missing nested arguments), declared in every form (decorator; "
        "class-based with a parent macro class, both orders of first use; FUNCTION form macro_node(creator, ...) with "
        "the same creator object declared 2-3 times with other labels/flags; creators nested in builder functions, "
        "optionally after ANOTHER creator of the same __name__) x operation sequences (assignments to macro/child "
        "inputs and outputs at any depth through the panel item / panel attribute / channel.value spellings, "
        "m.run(x=v) / m(x=v), refused non-int assignments, re-assignment of the same object after a child-level "
        "edit, replacement of a function child (any depth) by a fresh node of its class through replace_child / "
        "replace_with / `macro.child = Class`, runs); a case is non-trivial when the macro has at least one child and the sequence contains a run; "
        "distinct = distinct (definition, declarations, operations)")
TRUSTED = ["harness/props/c09.py: rendering of a definition as python source, reading the wiring and the values off "
           "the real objects, the plain-python and plain-Workflow references",
           "class-level history (which class / creator was declared first, the factory's class registry, use_cache "
           "flags) is outside the Coq model, whose build takes only the definition: those families are checked by "
           "the oracle against each declaration's own definition, and by comparing every declaration's wiring with "
           "the model's build of that definition"]
ASSUMPTIONS = ["values are ints (or NOT_DATA); hints are int/object, so no value ever fails a hint at run time",
               "parameters with defaults follow those without (python syntax); children are created in an order "
               "compatible with the data flow (an argument refers to a parameter or an EARLIER child)",
               "hand-wired flows are chains `a >> b >> ...; starting_nodes = [a]` over the creator's children",
               "executors, storage and failure handling are other properties; a scenario stops at the first failed run",
               "the execution order of a DAG body is taken from C01 (any order compatible with the data gives the "
               "same values); the model runs interface nodes first, then the children in creation/chain order"]

GEN = lib.BUILD / "c09_gen"
M = 1_000_003
CALLS = [0]


def _lin(args):
    CALLS[0] += 1
    return (len(args) + sum((i + 1) * a for i, a in enumerate(args))) % M


# ---- the function nodes of the scripts (imported by the generated modules) ---------------------
def _make_fns():
    from pyiron_workflow.nodes.function import as_function_node

    @as_function_node("y")
    def Fn0():
        return _lin([])

    @as_function_node("y")
    def Fn1(a):
        return _lin([a])

    @as_function_node("y")
    def Fn2(a, b):
        return _lin([a, b])

    @as_function_node("y")
    def Fn3(a, b, c):
        return _lin([a, b, c])

    @as_function_node("y")
    def Fn4(a, b, c, d):
        return _lin([a, b, c, d])

    return [Fn0, Fn1, Fn2, Fn3, Fn4]


_FNS = None


def FN(k):
    global _FNS
    if _FNS is None:
        _FNS = _make_fns()
    return _FNS[k]


# =============================================================================================
# definitions
#   d   = {"ps": [[label, default|None, hint|None]], "body": [[label, d|None, [arg]]], "rets": [[label, arg]],
#          "fl": ["auto"] | ["chain", [j]] | ["bad", bool], "scrape": bool, "self": name, "kw": bool}
#   arg = ["p", i] | ["o", j, l] | ["c", z]
#   op  = ["in", path, k, x] | ["out", path, l, x] | ["run"];  path = [["ui", i] | ["body", j]]
HINT_SRC = {None: "", "int": ": int", "object": ": object"}


def n_outs(body_entry):
    return 1 if body_entry[1] is None else len(body_entry[1]["rets"])


def out_label(body_entry, l):
    return "y" if body_entry[1] is None else body_entry[1]["rets"][l][0]


class Renderer:
    """definitions -> python source of one module; equal nested definitions share one class"""

    def __init__(self):
        self.names = {}
        self.chunks = []

    def cls(self, d):
        key = json.dumps(d, sort_keys=True)
        if key not in self.names:
            body_cls = [None if e[1] is None else self.cls(e[1]) for e in d["body"]]
            name = f"M{len(self.names)}"
            self.names[key] = name
            self.chunks.append(self.render(d, name, body_cls))
        return self.names[key]

    def arg_src(self, d, a, me):
        if a[0] == "p":
            return d["ps"][a[1]][0]
        if a[0] == "c":
            return str(a[1])
        e = d["body"][a[1]]
        if n_outs(e) == 1 and (a[1] + a[2]) % 2 == 0:
            return f"{me}.{e[0]}"
        return f"{me}.{e[0]}.outputs.{out_label(e, a[2])}"

    def ret_src(self, d, a, me):
        if a[0] == "p":
            return d["ps"][a[1]][0]
        if a[0] == "c":
            return str(a[1])
        e = d["body"][a[1]]
        if d.get("scrape") or n_outs(e) == 1:
            return f"{me}.{e[0]}"
        return f"{me}.{e[0]}.outputs.{out_label(e, a[2])}"

    def render(self, d, name, body_cls):
        me = d.get("self", "self")
        ps = []
        for label, default, hint in d["ps"]:
            ps.append(label + HINT_SRC[hint] + ((" = " if hint else "=") + str(default) if default is not None else ""))
        if d.get("scrape"):
            deco = "@as_macro_node" if len(d["rets"]) % 2 == 0 else "@as_macro_node()"
        else:
            deco = "@as_macro_node(" + ", ".join(json.dumps(r[0]) for r in d["rets"]) + ")"
        lines = [deco, f"def {name}({', '.join([me] + ps)}):"]
        for j, (label, sub, args) in enumerate(d["body"]):
            if sub is None:
                call = f"FN({len(args)})(" + ", ".join(self.arg_src(d, a, me) for a in args) + ")"
            else:
                parts = []
                for k, a in enumerate(args):
                    s = self.arg_src(d, a, me)
                    # keyword form for the later arguments of every other call
                    parts.append(f"{sub['ps'][k][0]}={s}" if d.get("kw") and k >= (j % 2) else s)
                call = f"{body_cls[j]}(" + ", ".join(parts) + ")"
            lines.append(f"    {me}.{label} = {call}")
        fl = d["fl"]
        if fl[0] == "chain" and len(fl[1]) >= 2:
            lines.append("    " + " >> ".join(f"{me}.{d['body'][j][0]}" for j in fl[1]))
        if fl[0] == "chain" and len(fl[1]) >= 1:
            lines.append(f"    {me}.starting_nodes = [{me}.{d['body'][fl[1][0]][0]}]")
        if fl[0] == "bad":
            if fl[1]:
                lines.append(f"    {me}.{d['body'][0][0]} >> {me}.{d['body'][1][0]}")
            else:
                lines.append(f"    {me}.starting_nodes = [{me}.{d['body'][0][0]}]")
        if d["rets"]:
            lines.append("    return " + ", ".join(self.ret_src(d, r[1], me) for r in d["rets"]))
        elif len(lines) == 2:
            lines.append("    pass")
        return "\n".join(lines) + "\n"

    def render_class(self, d, name, parent):
        """class-based definition: `class name(parent): [_output_labels = ...]; def graph_creator(self, ...)`"""
        body_cls = [None if e[1] is None else self.cls(e[1]) for e in d["body"]]
        fn = self.render(d, "graph_creator", body_cls).split("\n")[1:]          # drop the decorator line
        lines = [f"class {name}({parent}):"]
        if not d.get("scrape"):
            labels = "None" if not d["rets"] else "(" + ", ".join(json.dumps(r[0]) for r in d["rets"]) + ",)"
            lines.append(f"    _output_labels = {labels}")
        lines += ["    " + ln if ln else ln for ln in fn]
        return "\n".join(lines) + "\n"

    def plain_function(self, d):
        body_cls = [None if e[1] is None else self.cls(e[1]) for e in d["body"]]
        return "\n".join(self.render(d, "creator", body_cls).split("\n")[1:])

    def builder(self, name, d):
        """`def name(): def creator(self, ...): ...; return creator` -- a creator that is NOT at module top
        level (its __qualname__ differs from its __name__), as macros generated parametrically are"""
        fn = self.plain_function(d)
        return f"def {name}():\n" + "\n".join("    " + ln if ln else ln for ln in fn.split("\n")) + "\n    return creator\n"

    def module(self, d, base=None, function_form=False, nested=False, twin=None):
        if function_form:
            # a plain graph-creator FUNCTION (no decorator): the harness passes this very object to
            # macro_node(...) / as_macro_node(...)(...) several times with different declarations
            head = ("from pyiron_workflow.nodes.macro import Macro, as_macro_node\n"
                    "from harness.props.c09 import FN\n\n\n")
            if nested or twin is not None:
                tail = "\n\nTOP = 'build_main'\nNESTED = True\n"
                if twin is not None:      # ANOTHER creator with the same __name__, made by another builder
                    self.chunks.append(self.builder("build_twin", twin))
                    tail += "TWIN = 'build_twin'\n"
                self.chunks.append(self.builder("build_main", d))
                return head + "\n\n".join(self.chunks) + tail
            self.chunks.append(self.plain_function(d))
            return head + "\n\n".join(self.chunks) + "\n\nTOP = 'creator'\n"
        if base is None:
            top = self.cls(d)
            extra = ""
        else:
            chunk_b = self.render_class(base, "Base", "Macro")
            chunk_d = self.render_class(d, "Derived", "Base")
            self.chunks += [chunk_b, chunk_d]
            top = "Derived"
            extra = "BASE = 'Base'\n"
        src = ("from pyiron_workflow.nodes.macro import Macro, as_macro_node\n"
               "from harness.props.c09 import FN\n\n\n" + "\n\n".join(self.chunks) + f"\n\nTOP = {top!r}\n" + extra)
        return src


_MODS: dict = {}


_FRESH = [0]


def load_module(src, fresh=False):
    h = hashlib.sha1(src.encode()).hexdigest()[:16]
    name = f"c09m_{h}"
    if fresh:            # class-level history matters: never reuse classes another scenario has touched
        _FRESH[0] += 1
        name = f"c09m_{h}_{os.getpid()}_{_FRESH[0]}"
    if name in _MODS:
        return _MODS[name]
    GEN.mkdir(parents=True, exist_ok=True)
    path = GEN / f"{name}.py"
    if not path.exists() or path.read_text() != src:
        tmp = GEN / f".{name}.{time.time_ns()}.tmp"
        tmp.write_text(src)
        tmp.replace(path)
    spec = importlib.util.spec_from_file_location(name, path)
    mod = importlib.util.module_from_spec(spec)
    sys.modules[name] = mod
    try:
        spec.loader.exec_module(mod)
    except BaseException:
        sys.modules.pop(name, None)
        raise
    _MODS[name] = mod
    if len(_MODS) > 400:
        for k in list(_MODS)[:200]:
            sys.modules.pop(k, None)
            _MODS.pop(k, None)
    return mod


# =============================================================================================
# reading facts off the real objects
def _val(x):
    from pyiron_workflow.channels import NOT_DATA
    if x is NOT_DATA:
        return None
    if isinstance(x, bool) or not isinstance(x, int):
        return ["?", type(x).__name__]
    return [x]


def _hint(h):
    if h is None:
        return None
    return {int: "int", object: "object"}.get(h, "?" + repr(h))


def _index_is(seq, x):
    for i, y in enumerate(seq):
        if y is x:
            return i
    return None


def _is_macro(n):
    from pyiron_workflow.nodes.macro import Macro
    return isinstance(n, Macro)


def split_kids(m):
    """(interface nodes by parameter index or None, body children in order)"""
    labels = list(m.inputs.labels)
    kids = list(m.children.values())
    order = m._user_data.setdefault("c09_creation_order", [n.label for n in kids])
    kids.sort(key=lambda n: order.index(n.label) if n.label in order else len(order))
    uis = [None] * len(labels)
    body = []
    for n in kids:
        if type(n).__name__ == "UserInput" and n.label in labels and uis[labels.index(n.label)] is None:
            uis[labels.index(n.label)] = n
        else:
            body.append(n)
    return uis, body


def kidref(uis, body, node):
    i = _index_is(uis, node)
    if i is not None:
        return ["ui", i]
    j = _index_is(body, node)
    if j is not None:
        return ["body", j]
    return ["foreign"]


def snap_static(m):
    if not _is_macro(m):
        return ["fn", m.label, len(list(m.inputs))]
    uis, body = split_kids(m)
    params = [[c.label, _val(c.default), _hint(c.type_hint)] for c in m.inputs]
    recvs = []
    for c in m.inputs:
        r = c.value_receiver
        if r is None:
            recvs.append(["none"])
            continue
        ref = kidref(uis, body, r.owner)
        if ref[0] == "ui" and r is r.owner.inputs["user_input"]:
            recvs.append(ref)
        elif ref[0] == "body":
            recvs.append(ref + [_index_is(list(r.owner.inputs), r)])
        else:
            recvs.append(["orphan"])
    outs = list(m.outputs)
    uirecv = []
    for u in uis:
        r = None if u is None else u.outputs["user_input"].value_receiver
        uirecv.append(None if r is None else [(_index_is(outs, r) if _index_is(outs, r) is not None else -1)])
    bodies = []
    for n in body:
        conns = []
        for c in n.inputs:
            cc = []
            for o in c.connections:
                ref = kidref(uis, body, o.owner)
                cc.append(ref if ref[0] != "body" else ref + [_index_is(list(o.owner.outputs), o)])
            conns.append(cc)
        orecv = []
        for o in n.outputs:
            r = o.value_receiver
            orecv.append(None if r is None else [(_index_is(outs, r) if _index_is(outs, r) is not None else -1)])
        bodies.append([snap_static(n), conns, orecv])
    kids = [u for u in uis if u is not None] + body
    manual = any(len(n.signals.input.run.connections) > 0 for n in kids)

    def order_key(ref):
        return (0 if ref[0] == "ui" else 1, ref[1] if len(ref) > 1 else -1)

    start = [kidref(uis, body, n) for n in m.starting_nodes]
    if not manual:
        start = sorted(start, key=order_key)
    acc = [sorted([kidref(uis, body, s.owner) for s in n.signals.input.accumulate_and_run.connections], key=order_key)
           for n in body]
    run = [[kidref(uis, body, s.owner) for s in n.signals.input.run.connections] for n in body]
    uihints = ["-" if u is None else _hint(u.inputs["user_input"].type_hint) for u in uis]
    return ["mac", m.label, params, [c.label for c in m.outputs], recvs, [u is not None for u in uis], uihints, uirecv,
            bodies, manual, [start, acc, run]]


def snap_dyn(m):
    ins = [_val(c.value) for c in m.inputs]
    outs = [_val(c.value) for c in m.outputs]
    if not _is_macro(m):
        return [ins, outs]
    uis, body = split_kids(m)
    return [ins, outs,
            [[] if u is None else [[_val(c.value) for c in u.inputs], [_val(c.value) for c in u.outputs]] for u in uis],
            [snap_dyn(n) for n in body]]


def resolve(m, path):
    node = m
    for step in path:
        uis, body = split_kids(node)
        node = uis[step[1]] if step[0] == "ui" else body[step[1]]
        if node is None:
            raise LookupError("no such child")
    return node


# ---- facts for the oracle (not compared with the model) ---------------------------------------
def macros_of(m, d, path=()):
    """every macro instance with its definition and path"""
    yield m, d, list(path)
    _, body = split_kids(m)
    for j, (n, e) in enumerate(zip(body, d["body"])):
        if e[1] is not None and _is_macro(n):
            yield from macros_of(n, e[1], path + (["body", j],))


def link_facts(m, d):
    """value-linked pairs at every depth: [kind, path, index, macro value, partner value | 'missing']"""
    out = []
    for mac, dd, path in macros_of(m, d):
        uis, body = split_kids(mac)
        kept = kept_of(dd) if len(dd["ps"]) == len(list(mac.inputs)) else None
        for i, c in enumerate(mac.inputs):
            r = c.value_receiver
            fact = ["in", path, i, _val(c.value), "missing" if r is None else _val(r.value)]
            if kept is not None and r is not None:
                try:                             # the channel the definition says this input stands for
                    if kept[i]:
                        want = uis[i].inputs["user_input"]
                    elif uses_of(dd, i):
                        j, k = uses_of(dd, i)[0]
                        want = list(body[j].inputs)[k]
                    else:
                        want = r
                    if want is not r:
                        fact.append("misrouted")
                except Exception:
                    fact.append("misrouted")
            out.append(fact)
        outs = list(mac.outputs)
        for o, (_, a) in enumerate(dd["rets"]):
            try:
                if a[0] == "p":
                    ch = uis[a[1]].outputs["user_input"]
                else:
                    ch = list(body[a[1]].outputs)[a[2]]
                pv = _val(ch.value)
            except Exception:
                pv = "missing"
            out.append(["out", path, o, _val(outs[o].value) if o < len(outs) else "missing", pv])
    return out


def structure_facts(m, d):
    """preview / identity / closure facts for every macro instance"""
    from pyiron_workflow.channels import NOT_DATA
    facts = []
    for mac, dd, path in macros_of(m, d):
        cls = type(mac)
        pin = [[k, _hint(h), _val(df) if df is not NOT_DATA else None] for k, (h, df) in cls.preview_inputs().items()]
        pout = list(cls.preview_outputs().keys())
        inst_in = [[c.label, _hint(c.type_hint), _val(c.default)] for c in mac.inputs]
        inst_out = [c.label for c in mac.outputs]
        own = [id(c) for c in mac.inputs] + [id(c) for c in mac.outputs]
        kid_ch = []
        foreign = []
        sibs = list(mac.children.values())
        for n in sibs:
            for c in list(n.inputs) + list(n.outputs):
                kid_ch.append(id(c))
                for o in c.connections:
                    if not any(o.owner is s for s in sibs):
                        foreign.append([n.label, c.label, "data"])
            for c in list(n.signals.input) + list(n.signals.output):
                for o in c.connections:
                    if not any(o.owner is s for s in sibs):
                        foreign.append([n.label, c.label, "signal"])
            if n.parent is not mac:
                foreign.append([n.label, "", "parent"])
        own_conn = sum(len(c.connections) for c in list(mac.inputs) + list(mac.outputs)) if not path else 0
        facts.append({"path": path, "pin": pin, "pout": pout, "inst_in": inst_in, "inst_out": inst_out,
                      "aliased": len(set(own) & set(kid_ch)), "nodup": len(set(own)) == len(own),
                      "foreign": foreign, "root_connected": own_conn})
    return facts


# ---- references ----------------------------------------------------------------------------------
def py_denote(d, args):
    """plain python composition; None where python would raise for a missing argument"""
    env = []
    for label, sub, a in d["body"]:
        avs = [py_arg(x, args, env) for x in a]
        if sub is None:
            if any(v is None for v in avs):
                return None
            env.append([(len(avs) + sum((i + 1) * v for i, v in enumerate(avs))) % M])
        else:
            full = avs + [p[1] for p in sub["ps"][len(avs):]]
            if any(v is None for v in full) or len(avs) > len(sub["ps"]):
                return None
            r = py_denote(sub, full)
            if r is None:
                return None
            env.append(r)
    return [py_arg(a, args, env) for _, a in d["rets"]]


def py_arg(a, args, env):
    if a[0] == "p":
        return args[a[1]]
    if a[0] == "c":
        return a[1]
    return env[a[1]][a[2]]


def inlined_workflow(mod_top, d, args, tag):
    """the same body built directly in a plain Workflow with the same inputs; returns the values
    of the returned channels (parameters passed through are the values themselves)"""
    from pyiron_workflow import Workflow
    wf = Workflow(f"inl{tag}")
    kids = []
    for j, (label, sub, a) in enumerate(d["body"]):
        vals = []
        for x in a:
            if x[0] == "p":
                vals.append(args[x[1]])
            elif x[0] == "c":
                vals.append(x[1])
            else:
                vals.append(list(kids[x[1]].outputs)[x[2]])
        cls = FN(len(a)) if sub is None else mod_top(sub)
        n = cls(*vals)
        wf.add_child(n, label=label)
        kids.append(n)
    wf.run()
    out = []
    for _, a in d["rets"]:
        out.append(_val(args[a[1]]) if a[0] == "p" else _val(list(kids[a[1]].outputs)[a[2]].value))
    return out


# =============================================================================================
def scraped_labels(d):
    """the labels the return statement of the creator spells (None when it cannot be scraped)"""
    out = []
    for _, a in d["rets"]:
        if a[0] == "p":
            out.append(d["ps"][a[1]][0])
        elif a[0] == "o" and n_outs(d["body"][a[1]]) == 1:
            out.append(d["body"][a[1]][0])
        else:
            return None
    return out if len(set(out)) == len(out) else None


def variant_def(d, var):
    """the definition a declaration `macro_node(creator, output_labels=var['labels'])` stands for"""
    labels = var["labels"] if var["labels"] is not None else scraped_labels(d)
    return dict(d, rets=[[lab, r[1]] for lab, r in zip(labels, d["rets"])], scrape=var["labels"] is None)


def twin_var(twin):
    td = twin["d"]
    return {"labels": None if td.get("scrape") else [r[0] for r in td["rets"]], "form": twin.get("form", "function"),
            "use_cache": True, "bare": False}


def declare(creator, var, label):
    """one declaration of a macro from the creator object, in the form the variant asks for"""
    from pyiron_workflow.nodes.macro import as_macro_node, macro_node
    labels = var["labels"]
    if var.get("form") == "decorator":
        cls = as_macro_node(*(labels or ()), use_cache=var.get("use_cache", True))(creator)
        return cls(label=label)
    kw = {} if labels is None else {"output_labels": labels[0] if len(labels) == 1 and var.get("bare") else tuple(labels)}
    if not var.get("use_cache", True):
        kw["use_cache"] = False
    return macro_node(creator, label=label, **kw)


def variant_facts(creator, d, var, i):
    """declare, inspect and run one earlier macro made from the same creator object"""
    dv_ = variant_def(d, var)
    try:
        mv = declare(creator, var, f"v{i}")
        own = type(mv).graph_creator is creator
    except Exception as e:                      # noqa
        return {"static": ["EXC", type(e).__name__], "error": f"{type(e).__name__}: {str(e)[:150]}"}
    out = {"static": snap_static(mv), "struct": structure_facts(mv, dv_), "use_cache": bool(mv.use_cache), "own_creator": own}
    try:
        args = []
        for k, c in enumerate(mv.inputs):
            if _val(c.value) is None:
                mv.inputs[c.label] = 3 + (i if isinstance(i, int) else 0) + k
            args.append(c.value)
        out["ins"] = [_val(a) for a in args]
        mv.run()
        out["outs"] = [_val(c.value) for c in mv.outputs]
        out["links"] = link_facts(mv, dv_)
    except Exception as e:                      # noqa
        out["run_error"] = type(e).__name__
    return out


def run_impl(case):
    d, ops = case["d"], case["ops"]
    base = case.get("base")
    variants = case.get("variants")
    r = Renderer()
    twin = case.get("twin")
    src = r.module(d, None if base is None else base["d"], function_form=variants is not None,
                   nested=bool(case.get("nested")), twin=None if twin is None else twin["d"])
    try:
        mod = load_module(src, fresh=base is not None or variants is not None)
    except ValueError:
        return [["ValueError"], {"stage": "define"}]
    except Exception as e:                      # noqa
        return [["EXC-define", type(e).__name__, str(e)[:200]], {}]
    top = getattr(mod, mod.TOP)

    def cls_of(sub):
        return getattr(mod, r.names[json.dumps(sub, sort_keys=True)])

    base_cls = getattr(mod, mod.BASE) if base is not None else None
    if base is not None and base["first"] == "base":
        try:                                     # history: the parent class is previewed and used first
            base_cls.preview_io()
            base_cls(label="b")
        except Exception as e:                  # noqa
            return [["EXC-base", type(e).__name__, str(e)[:200]], {}]
    earlier = []
    if variants is not None and getattr(mod, "NESTED", False):
        if twin is not None:                     # history: another creator of the same __name__ went first
            tw = getattr(mod, mod.TWIN)()
            earlier.append(variant_facts(tw, twin["d"], twin_var(twin), "t"))
        top = top()                              # the creator is what the builder returns
    if variants is not None:                     # the SAME creator object declared several times, one process
        earlier += [variant_facts(top, d, var, i) for i, var in enumerate(variants[:-1])]
    try:
        m = top(label="m") if variants is None else declare(top, variants[-1], "m")
    except ValueError:
        main = ["ValueError"]
        return [main if variants is None else [[e["static"] for e in earlier], main], {"stage": "construct", "variants": earlier}]
    except Exception as e:                      # noqa
        return [["EXC-construct", type(e).__name__, str(e)[:200]], {}]
    static = snap_static(m)
    extras = {"struct": structure_facts(m, d), "links0": link_facts(m, d), "steps": [], "variants": earlier,
              "use_cache": bool(m.use_cache),
              "own_creator": variants is None or type(m).graph_creator is top}
    if base is not None:
        try:                                     # control: the parent class keeps ITS interface
            from pyiron_workflow.channels import NOT_DATA
            extras["base_preview"] = [
                [[k, _hint(h), _val(df) if df is not NOT_DATA else None] for k, (h, df) in base_cls.preview_inputs().items()],
                list(base_cls.preview_outputs().keys())]
        except Exception as e:                  # noqa
            extras["base_preview"] = ["EXC", type(e).__name__]
    steps = []
    dyn0 = snap_dyn(m)
    for t, op in enumerate(ops):
        ex = {}
        if op[0] == "runkw":
            try:
                labels = list(m.inputs.labels)
                kw = {labels[k]: x for k, x in op[1]}
            except IndexError:
                steps.append(["no-such-channel"])
                extras["steps"].append({"missing": True})
                break
        elif op[0] != "run":
            try:                                 # the channel the operation names must exist
                _n = resolve(m, op[1])
                if op[0] != "replace":
                    _ = (list(_n.inputs.labels) if op[0] in ("in", "bad") else list(_n.outputs))[op[2]]
            except (LookupError, IndexError, TypeError):
                steps.append(["no-such-channel"])
                extras["steps"].append({"missing": True})
                break
        if op[0] in ("run", "runkw"):
            CALLS[0] = 0
            try:
                if op[0] == "run":
                    m.run()
                elif len(op) > 2 and op[2] == "call":
                    m(**kw)                       # Node.__call__: pull with the keyword input
                else:
                    m.run(**kw)                   # HasIO.set_input_values, then run
                ok = True
            except Exception as e:              # noqa
                ok = False
                ex["error"] = type(e).__name__
            ex["ins"] = [_val(c.value) for c in m.inputs]      # a run never changes its own inputs
            if not ok:
                steps.append(["fail"])
                extras["steps"].append(ex)
                break
            calls = CALLS[0]
            steps.append(["ok", calls, snap_dyn(m)])
            ex["outs"] = [_val(c.value) for c in m.outputs]
            if all(v is not None and isinstance(v[0], int) for v in ex["ins"]):
                try:
                    ex["inl"] = inlined_workflow(cls_of, d, [v[0] for v in ex["ins"]], t)
                except Exception as e:          # noqa
                    ex["inl"] = ["EXC", type(e).__name__]
        elif op[0] == "replace":
            node = resolve(m, op[1])
            parent, cls_ = node.parent, type(node)
            try:
                if op[2] == "replace_with":
                    node.replace_with(cls_())
                elif op[2] == "assign":
                    setattr(parent, node.label, cls_)             # macro.child = Class
                elif op[2] == "by_label":
                    parent.replace_child(node.label, cls_())
                else:
                    parent.replace_child(node, cls_())
            except Exception as e:              # noqa
                steps.append(["EXC-replace", type(e).__name__])
                ex["error"] = f"{type(e).__name__}: {str(e)[:150]}"
                extras["steps"].append(ex)
                break
            steps.append(["replaced", snap_static(m), snap_dyn(m)])
        elif op[0] == "bad":
            node = resolve(m, op[1])
            before = snap_dyn(m)
            try:
                node.inputs[list(node.inputs.labels)[op[2]]] = "not-an-int"
            except TypeError:
                after = snap_dyn(m)
                steps.append(["TypeError", after])
                ex["unchanged"] = after == before
            else:
                steps.append(["accepted"])
                ex["accepted"] = True
                extras["steps"].append(ex)
                break
        else:
            node = resolve(m, op[1])
            if op[0] == "in":
                lab = list(node.inputs.labels)[op[2]]
                how = op[4] if len(op) > 4 else "panel"
                if how == "attr":
                    setattr(node.inputs, lab, op[3])          # m.inputs.x = v
                elif how == "value":
                    node.inputs[lab].value = op[3]            # m.inputs.x.value = v
                else:
                    node.inputs[lab] = op[3]                  # m.inputs["x"] = v
            else:
                list(node.outputs)[op[2]].value = op[3]
            steps.append(snap_dyn(m))
        ex["links"] = link_facts(m, d)
        extras["steps"].append(ex)
    main = [static, dyn0, steps]
    if variants is not None:
        main = [[e["static"] for e in earlier], main]
    return [main, extras]


def model_view(case, obs):
    return obs[0]


# ---- Coq rendering -----------------------------------------------------------------------------
def coq_arg(a):
    if a[0] == "p":
        return f"AParam {cn(a[1])}"
    if a[0] == "o":
        return f"AOut {cn(a[1])} {cn(a[2])}"
    return f"AConst {cz(a[1])}"


def coq_hint(h):
    return {None: "None", "int": "(Some HInt)", "object": "(Some HObj)"}[h]


def coq_def(d):
    ps = cl(f"mkParam {cs(p[0])} {lib.copt(p[1], cz)} {coq_hint(p[2])}" for p in d["ps"])
    body = cl(f"mkStmt {cs(e[0])} {'None' if e[1] is None else '(Some ' + coq_def(e[1]) + ')'} "
              f"{cl(coq_arg(a) for a in e[2])}" for e in d["body"])
    rets = cl(f"({cs(r[0])}, {coq_arg(r[1])})" for r in d["rets"])
    fl = d["fl"]
    if fl[0] == "auto":
        f = "FAuto"
    elif fl[0] == "chain":
        f = f"(FChain {cl(cn(j) for j in fl[1])})"
    else:
        f = f"(FBad {lib.cb(fl[1])})"
    return f"(MDef {ps} {body} {rets} {f})"


def coq_path(p):
    return cl((f"KUI {cn(s[1])}" if s[0] == "ui" else f"KBody {cn(s[1])}") for s in p)


def coq_op(op):
    if op[0] == "run":
        return "ORun"
    if op[0] == "bad":
        return f"OSetBad {coq_path(op[1])} {cn(op[2])}"
    if op[0] == "replace":
        return f"(OReplace {coq_path(op[1])})"
    if op[0] == "runkw":
        return "(ORunKw " + cl(f"({cn(k)}, {cz(x)})" for k, x in op[1]) + ")"
    return f"{'OSetIn' if op[0] == 'in' else 'OSetOut'} {coq_path(op[1])} {cn(op[2])} {cz(op[3])}"


def model_term(case):
    # the interface is that of the class's OWN definition: a derived macro class that declares no labels
    # scrapes its own return statement whichever class was used first (declared labels are inherited as an
    # ordinary class attribute; the generator never relies on that), so the parent plays no role in the model
    d = case["d"]
    main = f"oscenario {coq_def(d)} {cl(coq_op(o) for o in case['ops'])}"
    if case.get("variants") is None:
        return main
    # every earlier declaration made from the same creator: the wiring of ITS OWN definition
    decls = [(variant_def(d, var), "v%d" % i) for i, var in enumerate(case["variants"][:-1])]
    if case.get("twin") is not None:
        decls = [(variant_def(case["twin"]["d"], twin_var(case["twin"])), "vt")] + decls
    stat = [f'(match build {coq_def(dd)} {cs(lab)} with Some (s, _) => ostatic s | None => OL [OS "ValueError"] end)'
            for dd, lab in decls]
    return f"OL [OL {cl(stat)}; {main}]"


# =============================================================================================
# what the DEFINITION says (used by the generator and the oracle; independent of the model)
def uses_of(d, i):
    return [(j, k) for j, e in enumerate(d["body"]) for k, a in enumerate(e[2]) if a == ["p", i]]


def kept_of(d):
    """interface node i stays iff the parameter is forked or passed straight to an output"""
    return [len(uses_of(d, i)) >= 2 or any(r[1] == ["p", i] for r in d["rets"]) for i in range(len(d["ps"]))]


def macro_paths(d, path=()):
    yield list(path), d
    for j, e in enumerate(d["body"]):
        if e[1] is not None:
            yield from macro_paths(e[1], path + (["body", j],))


def receiver_inputs(d):
    """(path, k) of every child-level input channel that is the value_receiver of a macro input"""
    out = []
    for path, dd in macro_paths(d):
        kept = kept_of(dd)
        for i in range(len(dd["ps"])):
            if kept[i]:
                out.append((path + [["ui", i]], 0))
            else:
                for j, k in uses_of(dd, i)[:1]:
                    out.append((path + [["body", j]], k))
    return out


def rejects(d, k):
    """does the definition say that a non-int assigned to macro input k must be refused?  (the channel
    itself, or a channel it forwards to, is hinted int)"""
    if k >= len(d["ps"]):
        return False
    if d["ps"][k][2] == "int":
        return True
    if kept_of(d)[k]:
        return False
    for j, kk in uses_of(d, k)[:1]:
        sub = d["body"][j][1]
        if sub is not None and kk < len(sub["ps"]):
            return rejects(sub, kk)
    return False


def rejects_at(d, path, k):
    cur = d
    for n, s in enumerate(path):
        if s[0] == "ui":
            return n == len(path) - 1 and k == 0 and kept_of(cur)[s[1]] and cur["ps"][s[1]][2] == "int"
        sub = cur["body"][s[1]][1]
        if sub is None:
            return False
        cur = sub
    return rejects(cur, k)


def refusable_inputs(d):
    """(path, k) of macro-level inputs (any depth) whose refusal comes from a channel further down"""
    out = []
    for path, dd in macro_paths(d):
        for k, p in enumerate(dd["ps"]):
            if p[2] != "int" and rejects(dd, k):
                out.append((path, k))
    return out


def down_chain(d, path, k):
    """the child-level input channels (path, index) a macro input forwards to, through any nesting"""
    cur = d
    for s_ in path:
        if cur is None or s_[0] != "body" or s_[1] >= len(cur["body"]):
            return []                 # an interface node or a function child forwards nothing
        cur = cur["body"][s_[1]][1]
    out = []
    while cur is not None and k < len(cur["ps"]):
        if kept_of(cur)[k]:
            out.append((path + [["ui", k]], 0))
            break
        us = uses_of(cur, k)[:1]
        if not us:
            break
        j, kk = us[0]
        path = path + [["body", j]]
        out.append((path, kk))
        cur, k = cur["body"][j][1], kk
    return out


def dup_returns(d):
    """(path, o) of macro outputs whose returned channel is returned again under a later label"""
    out = []
    for path, dd in macro_paths(d):
        args = [r[1] for r in dd["rets"]]
        for o, a in enumerate(args):
            if a in args[o + 1:]:
                out.append((path, o))
    return out


def malformed(d):
    """definition-level reasons for which refusing the definition (ValueError) is legitimate"""
    why = []
    for path, dd in macro_paths(d):
        labels = [r[0] for r in dd["rets"]]
        if len(set(labels)) != len(labels):
            why.append("duplicate output labels")
        fl = dd["fl"]
        if fl[0] == "bad" or (fl[0] == "chain" and len(fl[1]) == 1):
            why.append("half-specified flow")
        if fl[0] == "chain" and any(j >= len(dd["body"]) for j in fl[1]):
            why.append("flow names a missing child")
        for j, e in enumerate(dd["body"]):
            if e[1] is not None:
                if len(e[2]) > len(e[1]["ps"]):
                    why.append("too many arguments")
                for k, a in enumerate(e[2][:len(e[1]["ps"])]):
                    if a[0] == "p" and dd["ps"][a[1]][2] == "object" and e[1]["ps"][k][2] == "int":
                        why.append("hint object fed to hint int")
    return why


# =============================================================================================
# generator
def gen_def(rng, depth, top=True):
    np_ = rng.choice([0, 1, 1, 2, 2, 3, 3, 4] if top else [1, 1, 2, 2, 3])
    nb = rng.choice([0, 1, 2, 2, 3, 3, 4] if top else [1, 1, 2, 2, 3])
    ps, started = [], False
    for i in range(np_):
        started = started or rng.random() < 0.45
        ps.append([rng.choice(["p", "x", "q", "arg"]) + str(i), rng.randrange(0, 30) if started else None,
                   rng.choice([None, None, None, "int", "int", "object"])])
    body = []
    # parameter usage plan: 0 / 1 / many uses
    weights = [rng.choice([0, 1, 1, 1, 3, 3]) for _ in range(np_)]

    def pick_arg(j):
        r = rng.random()
        live = [i for i in range(np_) if weights[i] > 0]
        if live and r < 0.5:
            i = rng.choice([i for i in live for _ in range(weights[i])])
            if weights[i] == 1:
                weights[i] = 0
            return ["p", i]
        if j > 0 and r < 0.85:
            jj = rng.randrange(j)
            return ["o", jj, rng.randrange(n_outs(body[jj]))]
        if live:
            i = rng.choice(live)
            if weights[i] == 1:
                weights[i] = 0
            return ["p", i]
        return ["c", rng.randrange(0, 50)]

    for j in range(nb):
        label = rng.choice(["c", "n", "k", "s"]) + str(j)
        if depth > 0 and rng.random() < (0.35 if top else 0.3):
            sub = gen_def(rng, depth - 1, top=False)
            need = len([p for p in sub["ps"] if p[1] is None])
            na = rng.choice([need, len(sub["ps"]), len(sub["ps"]), rng.randint(need, len(sub["ps"]))])
            if rng.random() < 0.02 and need > 0:
                na = need - 1                               # malformed: a required argument is missing
            body.append([label, sub, [pick_arg(j) for _ in range(na)]])
        else:
            body.append([label, None, [pick_arg(j) for _ in range(rng.choice([0, 1, 1, 2, 2, 2, 3, 4]))]])
    rets = []
    nr = rng.choice([0, 1, 1, 2, 2, 3]) if (np_ + nb) > 0 else 0
    if not top and nb > 0:
        nr = max(nr, 1)
    for o in range(nr):
        if np_ > 0 and (nb == 0 or rng.random() < 0.25):
            a = ["p", rng.randrange(np_)]
        elif nb > 0:
            j = rng.randrange(nb) if rng.random() < 0.5 else nb - 1
            a = ["o", j, rng.randrange(n_outs(body[j]))]
        else:
            continue
        if a in [r[1] for r in rets] and rng.random() < 0.75:
            continue                                        # duplicates are kept only rarely
        rets.append([rng.choice(["o", "out", "r"]) + str(o), a])
    if len(rets) > 1 and rng.random() < (0.02 if top else 0.005):
        rets[-1][0] = rets[0][0]                            # malformed: duplicate labels
    d = {"ps": ps, "body": body, "rets": rets, "fl": ["auto"], "scrape": False,
         "self": rng.choice(["self", "self", "macro", "wf"]), "kw": rng.random() < 0.5}
    derived = [(ps[r[1][1]][0] if r[1][0] == "p" else body[r[1][1]][0]) for r in rets]
    plain = all(r[1][0] == "p" or n_outs(body[r[1][1]]) == 1 for r in rets)
    if rets and plain and len(set(derived)) == len(derived) and rng.random() < 0.4:
        d["scrape"] = True
        for r, lab in zip(rets, derived):
            r[0] = lab
    r = rng.random()
    bad_p = 0.03 if top else 0.008                          # malformed flows stay rare
    if nb >= 2 and r < 0.3:
        order = list(range(nb))
        if rng.random() < 0.4:                              # another order compatible with the data
            order, left = [], list(range(nb))
            while left:
                ready = [j for j in left if all(a[0] != "o" or a[1] in order for a in body[j][2])]
                j = rng.choice(ready)
                order.append(j)
                left.remove(j)
        d["fl"] = ["chain", order]
    elif nb >= 1 and 0.3 <= r < 0.3 + bad_p:
        d["fl"] = ["chain", [0]] if rng.random() < 0.5 else ["bad", False]
    elif nb >= 2 and 0.3 + bad_p <= r < 0.3 + 2 * bad_p:
        d["fl"] = ["bad", True]
    return d


def node_at(d, path):
    """definition-side description of the node at a path: ('mac', d) | ('fn', arity) | ('ui',)"""
    cur = d
    for s in path:
        if s[0] == "ui":
            return ("ui",)
        e = cur["body"][s[1]]
        if e[1] is None:
            return ("fn", len(e[2]))
        cur = e[1]
    return ("mac", cur)


def gen_path(rng, d):
    path, cur = [], d
    while True:
        kept = kept_of(cur)
        opts = [["ui", i] for i in range(len(kept)) if kept[i]] + [["body", j] for j in range(len(cur["body"]))]
        if not opts:
            return path if path else None
        s = rng.choice(opts)
        path.append(s)
        if s[0] == "ui" or cur["body"][s[1]][1] is None or rng.random() < 0.5:
            return path
        cur = cur["body"][s[1]][1]


def gen_ops(rng, d):
    ops = []
    np_ = len(d["ps"])
    for i, p in enumerate(d["ps"]):
        if p[1] is None and rng.random() < 0.93:
            ops.append(["in", [], i, rng.randrange(0, 40)])
    n = rng.choice([2, 3, 4, 5, 6, 8])
    recv = receiver_inputs(d)
    for _ in range(n):
        r = rng.random()
        if r < 0.34:
            ops.append(["run"])
        elif r < 0.62 and np_ > 0:
            ops.append(["in", [], rng.randrange(np_), rng.choice([rng.randrange(0, 40), rng.randrange(0, 10 ** 6)])])
        elif r < 0.72 and recv and rng.random() < 0.7:
            p, k = rng.choice(recv)                          # the receiving side of a value link
            ops.append(["in", p, k, rng.randrange(0, 40)])
        elif r < 0.82:
            p = gen_path(rng, d)
            if p is None:
                continue
            nd = node_at(d, p)
            nin = 1 if nd[0] == "ui" else nd[1] if nd[0] == "fn" else len(nd[1]["ps"])
            if nin:
                ops.append(["in", p, rng.randrange(nin), rng.randrange(0, 40)])
        elif r < 0.92:
            p = gen_path(rng, d)
            if p is None:
                continue
            nd = node_at(d, p)
            nout = len(nd[1]["rets"]) if nd[0] == "mac" else 1
            if nout:
                ops.append(["out", p, rng.randrange(nout), rng.randrange(0, 40)])
        elif d["rets"]:
            ops.append(["out", [], rng.randrange(len(d["rets"])), rng.randrange(0, 40)])
    if not any(o[0] == "run" for o in ops) or rng.random() < 0.5:
        ops.append(["run"])
    # the three spellings of an assignment (panel item / panel attribute / channel.value), and some
    # macro-level assignments folded into the run that follows them: m.run(x=v) / m(x=v)
    out = []
    for o in ops:
        if o[0] == "in" and len(o) == 4:
            o = o + [rng.choice(["panel", "panel", "attr", "attr", "value"])]
        out.append(o)
    ops, out = out, []
    i = 0
    while i < len(ops):
        o = ops[i]
        if o[0] == "in" and o[1] == [] and i + 1 < len(ops) and ops[i + 1][0] == "run" and rng.random() < 0.35:
            out.append(["runkw", [[o[2], o[3]]], rng.choice(["run", "call"])])
            i += 2
        else:
            out.append(o)
            i += 1
    ops = out
    # a function child (any depth) replaced by a fresh node of its class -- replace_child by instance or by
    # label, child.replace_with, `macro.child = Class` -- then macro-level updates and a run
    fn_paths = [path + [["body", j]] for path, dd in macro_paths(d) for j, e in enumerate(dd["body"]) if e[1] is None]
    if fn_paths and rng.random() < 0.3:
        rep = [["replace", rng.choice(fn_paths), rng.choice(["replace_child", "by_label", "replace_with", "assign"])]]
        for i_ in range(np_):
            if rng.random() < 0.7:
                rep.append(["in", [], i_, rng.randrange(0, 40), rng.choice(["panel", "attr", "value"])])
        rep.append(["run"])
        at = rng.randrange(0, len(ops) + 1)
        ops = ops[:at] + rep + ops[at:]
    # re-assigning the SAME object at macro level after a child-level edit of a channel it forwards to:
    # the whole chain must carry it again (small ints are one object in CPython)
    chains = [(i_, c) for i_ in range(np_) for c in down_chain(d, [], i_)]
    if chains and rng.random() < 0.3:
        i_, (p, k) = rng.choice(chains)
        v = rng.randrange(0, 40)
        w = (v + 1 + rng.randrange(0, 5)) % 41
        again = rng.choice([["in", [], i_, v, "panel"], ["in", [], i_, v, "attr"],
                            ["runkw", [[i_, v]], "run"], ["runkw", [[i_, v]], "call"]])
        pat = [["in", [], i_, v, rng.choice(["panel", "attr", "value"])], ["in", p, k, w, rng.choice(["panel", "attr", "value"])],
               again] + ([["run"]] if again[0] == "in" else [])
        at = rng.randrange(0, len(ops) + 1)
        ops = ops[:at] + pat + ops[at:]
    return ops


def gen_refusal_def(rng):
    """an UN-hinted argument used exactly once, forwarded (through 0-2 un-hinted levels) to a nested macro
    whose argument is hinted int: the macro input is value-linked straight down to a hinted channel"""
    inner = {"ps": [["q0", rng.randrange(0, 9), "int"]] + ([["q1", 3, None]] if rng.random() < 0.5 else []),
             "body": [["c0", None, [["p", 0]] + ([["c", 2]] if rng.random() < 0.5 else [])]],
             "rets": [["r0", ["o", 0, 0]]], "fl": ["auto"], "scrape": False, "self": "self", "kw": False}
    cur = inner
    for lvl in range(rng.choice([1, 1, 2, 3])):
        extra = rng.random() < 0.5
        ps = [["x%d" % lvl, rng.randrange(0, 9), rng.choice([None, None, "object"])]] + ([["y%d" % lvl, 4, None]] if extra else [])
        body = [["n0", cur, [["p", 0]]]]
        if extra:
            body.append(["c1", None, [["o", 0, 0], ["p", 1]]])
        cur = {"ps": ps, "body": body, "rets": [["out%d" % lvl, ["o", len(body) - 1, 0]]], "fl": ["auto"],
               "scrape": False, "self": "self", "kw": rng.random() < 0.5}
    return cur


def gen_bad_ops(rng, d, ops):
    """sprinkle assignments of a non-int where the definition says they must be refused"""
    cands = refusable_inputs(d) * 3 + [(p, k) for p, dd in macro_paths(d) for k, q in enumerate(dd["ps"]) if q[2] == "int"]
    if not cands:
        return ops
    out = list(ops)
    for _ in range(rng.choice([1, 1, 2])):
        p, k = rng.choice(cands)
        out.insert(rng.randrange(0, len(out) + 1), ["bad", p, k])
    return out


def generate(ctx):
    rng = ctx.rng
    cases, seen = [], set()
    n = ctx.n(660, 6000)
    while len(cases) < n:
        fam = rng.random()
        depth = rng.choice([0, 1, 1, 2, 2])             # at most three levels of macros
        case = {}
        if fam < 0.08:
            d = gen_refusal_def(rng)
        else:
            d = gen_def(rng, depth)
        ops = gen_ops(rng, d)
        if rng.random() < 0.45:                              # macro-level histories only
            ops = [o for o in ops if is_macro_level(o)]
        if fam < 0.08 or rng.random() < 0.25:
            ops = gen_bad_ops(rng, d, ops)
        elif rng.random() < 0.03 and d["ps"]:                # a non-int where nothing objects: ends the scenario
            ops = ops + [["bad", [], rng.randrange(len(d["ps"]))]]
        case = {"d": d, "ops": ops}
        if 0.08 <= fam < 0.2 and not malformed(d):
            # class-based definition DERIVED from another concrete macro class with its own signature
            b = gen_def(rng, rng.choice([0, 0, 1]))
            if malformed(b) or dup_returns(b):
                continue
            if rng.random() < 0.5 and d["ps"]:               # same first argument, other default / hint, extra arguments
                b = dict(b, ps=[[d["ps"][0][0], 1 if d["ps"][0][1] is None else d["ps"][0][1] + 1, "int"]])
                b["body"] = [["c0", None, [["p", 0]]]]
                b["rets"] = [["c0", ["o", 0, 0]]] if d.get("scrape") else [["o0", ["o", 0, 0]]]
                b["fl"] = ["auto"]
                b["scrape"] = bool(d.get("scrape"))
            if d.get("scrape") and not b.get("scrape"):
                d["scrape"] = False                          # explicit labels of a parent are inherited by design
                for o, r in enumerate(d["rets"]):
                    r[0] = "out%d" % o
            case["base"] = {"d": b, "first": rng.choice(["base", "base", "derived"])}
        if 0.2 <= fam < 0.32 and not malformed(d) and d["rets"]:
            # FUNCTION form: the same creator object declared two or three times (macro_node(creator, ...),
            # sometimes the decorator applied to it) with different labels / flags; the last one runs the ops
            own = [r[0] for r in d["rets"]]
            last = {"labels": None if d.get("scrape") else own, "form": "function", "use_cache": True,
                    "bare": len(own) == 1 and rng.random() < 0.5}
            variants = []
            for i in range(rng.choice([1, 1, 2])):
                r = rng.random()
                if r < 0.35 and len(own) > 1:
                    labels = own[1:] + own[:1] if rng.random() < 0.5 else list(reversed(own))    # the same names, permuted
                elif r < 0.55 and scraped_labels(d) is not None and own != scraped_labels(d):
                    labels = None
                else:
                    labels = ["%s%d" % (rng.choice(["a", "big", "lo", "t"]), o) for o in range(len(own))]
                variants.append({"labels": labels, "form": "decorator" if rng.random() < 0.2 else "function",
                                 "use_cache": rng.random() < 0.8, "bare": labels is not None and len(labels) == 1 and rng.random() < 0.5})
            case["variants"] = variants + [last]
            if rng.random() < 0.55:
                # the creator is NOT at module top level (a builder function returns it); sometimes ANOTHER
                # creator with the same __name__, made by another builder, has been declared before it
                case["nested"] = True
                if rng.random() < 0.65:
                    td = gen_def(rng, rng.choice([0, 0, 1]))
                    if td["rets"] and not malformed(td) and not dup_returns(td) and td != d:
                        case["twin"] = {"d": td, "form": rng.choice(["function", "function", "decorator"])}
                        if rng.random() < 0.5:
                            case["variants"] = [last]
        k = json.dumps(case, sort_keys=True)
        if k in seen:
            continue
        seen.add(k)
        cases.append(case)
    return cases


def _prune_gen(max_age_s=2 * 3600):
    """generated modules are scratch: drop those no run can still be using"""
    try:
        now = time.time()
        for f in GEN.glob("*.py"):
            if now - f.stat().st_mtime > max_age_s:
                f.unlink(missing_ok=True)
    except OSError:
        pass


def corpus(ctx):
    _prune_gen()
    out = []
    for p in sorted((lib.VERIF / "corpus" / PROP).glob("*.json")):
        out.extend(json.loads(p.read_text()))
    return out


# =============================================================================================
# the property, on the facts recorded from the implementation
def is_macro_level(o):
    # (replacing a function child by a fresh node of its class leaves the definition what it is)
    return o[0] in ("run", "runkw", "replace") or o[1] == []


def _startswith(path, prefix):
    return path[:len(prefix)] == prefix


def failures(case, obs):
    """[(signature, step | -1, detail, explanation-key)] ; explanation-key is what known() inspects"""
    d, ops = case["d"], case["ops"]
    main, ex = obs
    bad = []
    why = malformed(d)
    variants = case.get("variants")
    if variants is not None and isinstance(main, list) and len(main) == 2 and isinstance(main[0], list) \
            and not (main and isinstance(main[0], str)):
        main = main[1]
    if variants is not None and isinstance(ex, dict):
        # every declaration made from the same creator object is checked against ITS OWN declaration
        decls = [(d, var) for var in variants[:-1]]
        if case.get("twin") is not None:
            decls = [(case["twin"]["d"], twin_var(case["twin"]))] + decls
        if ex.get("own_creator") is False:
            bad.append(("interface", -1, "the macro's graph creator is not the function it was declared from", None))
        for i, ((dd_, var), f) in enumerate(zip(decls, ex.get("variants", []))):
            dv_ = variant_def(dd_, var)
            if f.get("own_creator") is False:
                bad.append(("interface", -1, f"declaration {i}: the macro's graph creator is not the function it was declared from", None))
            want_out = [r[0] for r in dv_["rets"]]
            if "error" in f:
                bad.append(("variant-refused", -1, f"declaration {i} ({var}) of the same creator raised {f['error']}", None))
                continue
            for sf in f["struct"][:1]:
                if sf["pout"] != want_out or sf["inst_out"] != want_out:
                    bad.append(("interface", -1, f"declaration {i} of the same creator declares outputs {want_out}; its class "
                                                 f"previews {sf['pout']}, the instance carries {sf['inst_out']}", None))
                want_in = [[p[0], p[2], None if p[1] is None else [p[1]]] for p in dd_["ps"]]
                if sf["pin"] != want_in:
                    bad.append(("interface", -1, f"declaration {i}: previewed inputs {sf['pin']}, the creator declares {want_in}", None))
            if f.get("use_cache") != var.get("use_cache", True):
                bad.append(("interface", -1, f"declaration {i} asked for use_cache={var.get('use_cache', True)}, the macro has "
                                             f"{f.get('use_cache')}", None))
            if "run_error" in f:
                a_ = [None if v is None else v[0] for v in f.get("ins", [])]
                runnable = len(a_) == len(dd_["ps"]) and all(isinstance(a, int) for a in a_) and py_denote(dv_, a_) is not None
                if runnable and not dup_returns(dv_):
                    bad.append(("run-failed", -1, f"declaration {i}: run raised {f['run_error']} although every call of "
                                                  f"the definition has its arguments", None))
                continue
            if not dup_returns(dv_):
                for kind, path, idx, mv, pv in [x[:5] for x in f.get("links", [])]:
                    if mv != pv:
                        bad.append((f"sync-{kind}", -1, f"declaration {i}: macro {kind}put {idx} at {path} holds {mv}, its child "
                                                        f"channel holds {pv}", ("variant", path, idx)))
                args = [None if v is None else v[0] for v in f.get("ins", [])]
                if len(args) == len(dd_["ps"]) and all(isinstance(a, int) for a in args):
                    ref = py_denote(dv_, args)
                    if ref is not None and f.get("outs") != [[v] for v in ref]:
                        bad.append(("run-differs", -1, f"declaration {i} (labels {want_out}) with inputs {args} returned "
                                                       f"{f.get('outs')}, plain python gives {ref}", ("variant",)))
        if ex.get("use_cache") is not None and ex["use_cache"] != variants[-1].get("use_cache", True):
            bad.append(("interface", -1, f"the last declaration asked for use_cache={variants[-1].get('use_cache', True)}", None))
    if main and main[0] == "ValueError":
        if not why:
            bad.append(("refused", -1, "a well-formed definition raised ValueError", None))
        return bad
    if main and isinstance(main[0], str) and main[0].startswith("EXC"):
        return [("crash", -1, f"{main[0]} {main[1:]}", None)]
    if any(w in ("duplicate output labels", "half-specified flow") for w in why):
        bad.append(("accepted-malformed", -1, f"definition accepted although: {why}", None))
    # ---- interface, identity, closure ---------------------------------------------------------
    defs = {json.dumps(p): dd for p, dd in macro_paths(d)}
    for f in ex["struct"]:
        dd = defs[json.dumps(f["path"])]
        want_in = [[p[0], p[2], None if p[1] is None else [p[1]]] for p in dd["ps"]]
        want_out = [r[0] for r in dd["rets"]]
        if f["pin"] != want_in or f["pout"] != want_out:
            bad.append(("interface", -1, f"preview of macro at {f['path']}: {f['pin']} -> {f['pout']}, "
                                         f"definition says {want_in} -> {want_out}", None))
        if f["inst_in"] != want_in or f["inst_out"] != want_out:
            bad.append(("interface", -1, f"channels of macro at {f['path']}: {f['inst_in']} -> {f['inst_out']}, "
                                         f"definition says {want_in} -> {want_out}", None))
        if f["aliased"] or not f["nodup"]:
            bad.append(("aliased-io", -1, f"macro at {f['path']} shares channel objects with its children", None))
        if f["foreign"] or f["root_connected"]:
            bad.append(("not-closed", -1, f"macro at {f['path']}: connections leaving the sibling scope "
                                          f"{f['foreign']}", None))
    if case.get("base") is not None:
        bd = case["base"]["d"]
        want_b = [[[p[0], p[2], None if p[1] is None else [p[1]]] for p in bd["ps"]], [r[0] for r in bd["rets"]]]
        if ex.get("base_preview") != want_b:
            bad.append(("interface", -1, f"preview of the PARENT class: {ex.get('base_preview')}, its definition says "
                                         f"{want_b}", None))
    # ---- value links, after construction and after every operation ------------------------
    def check_links(links, t):
        for fact in links:
            kind, path, idx, mv, pv = fact[:5]
            if len(fact) > 5:
                bad.append(("misrouted-link", t, f"after step {t}: macro input {idx} at {path} is value-linked to another "
                                                 f"channel than the one its definition feeds it to", (kind, path, idx)))
            if pv == "missing" or mv == "missing":
                bad.append(("unlinked", t, f"macro {kind}put {idx} at {path} has no partner channel", (kind, path, idx)))
            elif mv != pv:
                bad.append((f"sync-{kind}", t, f"after step {t}: macro {kind}put {idx} at {path} holds {mv}, "
                                               f"its child channel holds {pv}", (kind, path, idx)))
    check_links(ex["links0"], -1)
    for t, st in enumerate(ex["steps"]):
        if st.get("missing"):
            bad.append(("interface", t, f"step {t}: the channel {ops[t][1:3]} of the definition does not exist", None))
            break
        if "links" in st:
            check_links(st["links"], t)
        if ops[t][0] == "replace":
            if "error" in st:
                bad.append(("replace-failed", t, f"step {t}: replacing a child by a node of its own class raised {st['error']}", None))
            continue
        if ops[t][0] == "bad":
            must = rejects_at(d, ops[t][1], ops[t][2])
            if st.get("accepted") and must:
                bad.append(("accepted-bad-value", t, f"step {t}: a non-int was accepted by input {ops[t][2]} at "
                                                     f"{ops[t][1]} although a channel it stands for is hinted int", None))
            if "unchanged" in st and not st["unchanged"]:
                bad.append(("refused-update-left-traces", t, f"step {t}: the assignment was refused (TypeError) but "
                                                             f"some channel changed", None))
            continue
        if ops[t][0] not in ("run", "runkw"):
            continue
        ins = st["ins"]
        if any(v is not None and not (len(v) == 1 and isinstance(v[0], int) and not isinstance(v[0], bool)) for v in ins):
            bad.append(("non-int-input", t, f"run {t}: a macro input holds {ins}", None))
            continue
        if len(ins) != len(d["ps"]):
            bad.append(("interface", t, f"run {t}: the macro has {len(ins)} inputs, its definition {len(d['ps'])}", None))
            continue
        args = [None if v is None else v[0] for v in ins]
        ref = None if any(a is None for a in args) else py_denote(d, args)
        if "outs" not in st:
            if ref is not None:
                bad.append(("run-failed", t, f"run {t} raised {st.get('error')} although every call of the "
                                             f"definition has its arguments", None))
            continue
        macro_level_only = all(is_macro_level(o) for o in ops[:t])
        if not macro_level_only:
            continue          # the reference for a body edited from inside is not the definition
        if ref is None:
            bad.append(("run-unexpected", t, f"run {t} succeeded although plain python lacks an argument", None))
            continue
        want = [[v] for v in ref]
        if st["outs"] != want:
            bad.append(("run-differs", t, f"run {t} with inputs {args} returned {st['outs']}, plain python gives "
                                          f"{want} (the same body in a plain Workflow: {st.get('inl')})", None))
        elif st.get("inl") != st["outs"]:
            bad.append(("run-differs", t, f"run {t} with inputs {args} returned {st['outs']}, the same body in a "
                                          f"plain Workflow gives {st.get('inl')}", None))
    return bad


def oracle(case, obs):
    bad = failures(case, obs)
    if not bad:
        return None
    sig, t, detail, _ = bad[0]
    return f"{sig}: {detail}" + (f" (+{len(bad) - 1} more)" if len(bad) > 1 else "")


K1 = "S14-child-input-not-mirrored-up"
K2 = "S14-macro-output-not-mirrored-down"
K3 = "C09-duplicate-return-replaces-link"


def explain(case, failure):
    """the known finding whose CAUSE PREDICATE holds for this failure, or None"""
    d, ops = case["d"], case["ops"]
    sig, t, _, key = failure
    recv = [(json.dumps(p), k) for p, k in receiver_inputs(d)]
    dups = dup_returns(d)
    before = ops[:t + 1] if t >= 0 else []

    def sets(o):
        """the input channels (path, k) an operation assigns at the sending side"""
        if o[0] == "in":
            return [(o[1], o[2])]
        if o[0] == "runkw":
            return [([], k) for k, _ in o[1]]
        return []

    def recv_in_poke(path, idx):
        """position-aware cause predicate of S14 (input side) for the pair (macro input (path, idx), the child
        channel R it is linked to), looking only at the operations up to the failing step: some earlier
        operation assigned R itself (the receiving side), and nothing after THAT assignment has
        re-synchronised the pair -- neither an assignment of the sender or of a channel forwarding into it
        (C09_sync_down_partial), nor a replacement of the node that owns R (its links are re-forged with the
        sender's value; replacing a node further down re-forges other links, not this one)"""
        chain = down_chain(d, path, idx)
        if not chain:
            return False
        rp, rk = chain[0]
        rkey = (json.dumps(rp), rk)
        last_poke = max([u for u, o in enumerate(before) if o[0] == "in" and (json.dumps(o[1]), o[2]) == rkey], default=None)
        if last_poke is None:
            return False
        for o in before[last_poke + 1:]:
            if o[0] == "replace" and json.dumps(o[1]) == json.dumps(rp):
                return False
            for p, k in sets(o):
                if (json.dumps(p), k) == (json.dumps(path), idx) or \
                        (json.dumps(path), idx) in [(json.dumps(q), kk) for q, kk in down_chain(d, p, k)]:
                    return False
        return True

    if sig == "sync-in":
        _, path, idx = key
        return K1 if recv_in_poke(path, idx) else None
    if sig == "sync-out":
        _, path, idx = key
        if any(p == path and o == idx for p, o in dups):
            return K3
        if any(o[0] == "out" and o[1] == path and o[2] == idx and node_at(d, path)[0] == "mac" for o in before):
            return K2
        return None
    if sig == "run-differs":
        if any(o[0] == "out" and o[1] == [] for o in before):
            return K2
        return K3 if dups else None
    if sig == "run-failed":
        return K3 if dups else None
    return None


def known(case, obs, verdict):
    bad = failures(case, obs)
    if not bad:
        return None
    ids = [explain(case, f) for f in bad]
    if any(i is None for i in ids):
        return None
    return ids[0]


def nontrivial(case, obs):
    return len(case["d"]["body"]) > 0 and any(o[0] in ("run", "runkw") for o in case["ops"])


def key(case):
    return [case["d"], case["ops"], case.get("base"), case.get("variants"), case.get("nested"), case.get("twin")]


def shrink_candidates(case):
    if case.get("variants") is not None:
        ops, vs = case["ops"], case["variants"]
        for i in range(len(ops)):
            yield dict(case, ops=ops[:i] + ops[i + 1:])
        for i in range(len(vs) - 1):
            if len(vs) > 2:
                yield dict(case, variants=vs[:i] + vs[i + 1:])
        return
    if case.get("base") is not None:
        d, ops = case["d"], case["ops"]
        for i in range(len(ops)):
            yield dict(case, ops=ops[:i] + ops[i + 1:])
        yield {"d": d, "ops": ops}
        return
    d, ops = case["d"], case["ops"]
    for i in range(len(ops)):
        yield {"d": d, "ops": ops[:i] + ops[i + 1:]}
    for i in range(len(ops) - 1, 0, -1):
        yield {"d": d, "ops": ops[:i]}
    # drop the last child when nothing refers to it
    if d["body"]:
        j = len(d["body"]) - 1
        if not any(r[1][0] == "o" and r[1][1] == j for r in d["rets"]) and \
                (d["fl"][0] != "chain" or j not in d["fl"][1]) and \
                not any(o[0] != "run" and any(s == ["body", j] for s in o[1][:1]) for o in ops):
            yield {"d": dict(d, body=d["body"][:-1]), "ops": ops}
    # a nested definition replaced by its own (when it is the whole story)
    for e in d["body"]:
        if e[1] is not None:
            yield {"d": e[1], "ops": [o for o in ops if o[0] == "run" or (o[0] != "runkw" and o[1] == [])]}
    if d["fl"][0] != "auto":
        yield {"d": dict(d, fl=["auto"]), "ops": ops}
    if d.get("scrape") is False and d.get("kw"):
        yield {"d": dict(d, kw=False), "ops": ops}


def depth_of(d):
    return 1 + max([depth_of(e[1]) for e in d["body"] if e[1] is not None] or [0])


def distribution(results):
    dist = {"depth": {}, "params_used": {"0": 0, "1": 0, "many": 0}, "passthrough": 0, "nested_fed_by_param": 0,
            "flow": {}, "scrape": 0, "defaults": 0, "hints": 0, "refused": 0, "runs": 0, "failed_runs": 0,
            "ops": {"macro_in": 0, "child_in": 0, "child_out": 0, "macro_out": 0, "run": 0, "bad": 0},
            "refused_from_below": 0, "derived_class": {"base": 0, "derived": 0},
            "function_form": {"cases": 0, "declarations": 0, "decorator_first": 0, "scraped_then_explicit": 0}, "children": {}}
    for c, enc, v, o in results:
        d = c["d"]
        dist["depth"][str(depth_of(d))] = dist["depth"].get(str(depth_of(d)), 0) + 1
        dist["children"][str(len(d["body"]))] = dist["children"].get(str(len(d["body"])), 0) + 1
        for i, p in enumerate(d["ps"]):
            u = len(uses_of(d, i))
            dist["params_used"]["0" if u == 0 else "1" if u == 1 else "many"] += 1
            dist["defaults"] += p[1] is not None
            dist["hints"] += p[2] is not None
        dist["passthrough"] += sum(1 for r in d["rets"] if r[1][0] == "p")
        dist["nested_fed_by_param"] += sum(1 for e in d["body"] if e[1] is not None and any(a[0] == "p" for a in e[2]))
        dist["flow"][d["fl"][0]] = dist["flow"].get(d["fl"][0], 0) + 1
        dist["scrape"] += bool(d.get("scrape"))
        if c.get("base") is not None:
            dist["derived_class"][c["base"]["first"]] += 1
        if c.get("variants") is not None:
            ff = dist["function_form"]
            ff["cases"] += 1
            ff["declarations"] += len(c["variants"])
            ff["decorator_first"] += any(v.get("form") == "decorator" for v in c["variants"][:-1])
            ff["scraped_then_explicit"] += any(v["labels"] is None for v in c["variants"][:-1])
            ff["nested_creator"] = ff.get("nested_creator", 0) + bool(c.get("nested"))
            ff["same_name_twin"] = ff.get("same_name_twin", 0) + (c.get("twin") is not None)
        if isinstance(o, list) and o and o[0] and o[0][0] == "ValueError":
            dist["refused"] += 1
        for op in c["ops"]:
            if op[0] in ("run", "runkw"):
                dist["ops"]["run"] += 1
                dist["ops"]["run_kw"] = dist["ops"].get("run_kw", 0) + (op[0] == "runkw")
            elif op[0] == "replace":
                dist["ops"]["replace"] = dist["ops"].get("replace", 0) + 1
            elif op[0] == "bad":
                dist["ops"]["bad"] += 1
                dist["refused_from_below"] += (tuple(map(json.dumps, [op[1], op[2]])) in
                                               {tuple(map(json.dumps, [p, k])) for p, k in refusable_inputs(d)})
            elif op[0] == "in":
                dist["ops"]["macro_in" if op[1] == [] else "child_in"] += 1
                how = op[4] if len(op) > 4 else "panel"
                dist["ops"]["how_" + how] = dist["ops"].get("how_" + how, 0) + 1
            else:
                dist["ops"]["macro_out" if op[1] == [] else "child_out"] += 1
        if isinstance(o, list) and len(o) == 2 and isinstance(o[1], dict):
            for st in o[1].get("steps", []):
                if "ins" in st:
                    dist["runs"] += 1
                    dist["failed_runs"] += "outs" not in st
    return dist
