"""C03 -- inputs resolve by connection priority; nothing runs on missing or ill-typed data.

A fixed little universe of real nodes (three upstream nodes with one output each, two
downstream nodes with two inputs each, typed `int` or untyped, strict or not) is driven by
a history of public operations (assign, connect, disconnect, strict on/off, value-receiver
links, fetch, run with keyword values, running/failed flags).  After every operation all
channel values and the outcome are compared with Fetch.obs_hist; the oracle re-derives
what the property demands from a snapshot taken before the operation.
"""
from __future__ import annotations

from harness import lib, nodes
from harness.lib import cb, cl, cn, cz

PROP = "C03"
IMPORTS = "Base Fetch"
RULE = ("histories of 6-22 ops over 3 upstream outputs and 2 two-input nodes (typed/untyped x strict/non-strict per case); "
        "the hint is int (70%), builtin callable or typing.Callable (admitted values are then callable ints); values: ints, a non-int, NOT_DATA; up to 3 prioritised connections per input; receiver chains up to length 3. "
        "Non-trivial: some input with >=2 connections was fetched/run AND some operation was refused. Distinct by content.")
TRUSTED = ["hints reduced to admitted-or-not in this layer (int, builtin callable, typing.Callable; the hint calculus is C04); 'bad' values are python strings, or objects that carry a `magnitude` attribute the hint would admit"]
ASSUMPTIONS = ["a TypeError raised by the value setter during fetch counts as 'refused' like a ReadinessError (the function is "
               "not called, outputs untouched, node not failed): the statement's first and third sentence meet there",
               "hint mutation after construction is not an assignment path"]

# channel ids: U0.y=0 U1.y=1 U2.y=2 D0.a=3 D0.b=4 D1.a=5 D1.b=6 D0.y=7 D1.y=8
from pyiron_workflow.nodes.function import as_function_node  # noqa: E402


def _w(x):
    return x if isinstance(x, int) else 1000 * int(str(x)[3:])


@as_function_node("y")
def Up(v=0):
    return v


@as_function_node("y")
def UpI(v: int = 0) -> int:
    return v


@as_function_node("y")
def DT(a: int, b: int):
    nodes.CALLS.append(("D", [a, b]))
    return _w(a) + _w(b)


@as_function_node("y")
def DU(a, b):
    nodes.CALLS.append(("D", [a, b]))
    return _w(a) + _w(b)


class CInt(int):
    """an int that is also callable: the admitted values of the `callable` / `typing.Callable` flavours of a case"""
    def __call__(self):
        return int(self)


import typing  # noqa: E402


@as_function_node("y")
def UpIc(v: callable = CInt(0)) -> callable:
    return v


@as_function_node("y")
def UpIC(v: typing.Callable = CInt(0)) -> typing.Callable:
    return v


@as_function_node("y")
def DTc(a: callable, b: callable):
    nodes.CALLS.append(("D", [a, b]))
    return _w(a) + _w(b)


@as_function_node("y")
def DTC(a: typing.Callable, b: typing.Callable):
    nodes.CALLS.append(("D", [a, b]))
    return _w(a) + _w(b)


FLAVOUR = {"int": (UpI, DT), "callable": (UpIc, DTc), "Callable": (UpIC, DTC)}
_WRAP = [False]     # whether admitted values are delivered as CInt (set per case by build)


class Mag:
    """a value the hint rejects that carries an attribute `magnitude` the hint would admit (only real pint quantities are
    to be judged by their magnitude)"""
    def __init__(self, k, wrap):
        self.k = k
        self.magnitude = CInt(k) if wrap else k

    def __str__(self):
        return f"bad{self.k}"

    def __eq__(self, other):
        return isinstance(other, Mag) and other.k == self.k

    def __hash__(self):
        return hash(("Mag", self.k))


def val_py(v):
    from pyiron_workflow.channels import NOT_DATA
    if v is None:
        return NOT_DATA
    if isinstance(v, list):
        return Mag(v[1], _WRAP[0]) if v[1] >= 10 else f"bad{v[1]}"
    return CInt(v) if _WRAP[0] else v


def val_obs(x):
    from pyiron_workflow.channels import NOT_DATA
    if x is NOT_DATA:
        return "nd"
    if isinstance(x, (str, Mag)):
        return ["bad", int(str(x)[3:])]
    return int(x)


def gen(rng):
    case = {"typed": [rng.random() < 0.7, rng.random() < 0.5], "u1_typed": rng.random() < 0.5, "ops": []}
    h = rng.random()
    if h < 0.3:
        # the hint the typed channels carry: int, or one whose admission takes another branch of the value check
        case["hint"] = "callable" if h < 0.2 else "Callable"
    vals = [0, 1, 2, 5, 9, ["bad", 1], ["bad", 11], None]
    if rng.random() < 0.3:
        # a non-int smuggled into a typed input while strictness is off, strictness back on, then a run:
        # the readiness gate (not the setter) has to refuse
        n = rng.randrange(2)
        c = rng.choice([3, 4] if n == 0 else [5, 6])
        other = ({3, 4} if n == 0 else {5, 6}) - {c}
        case["ops"] += [["strict", c, False], ["assign", c, ["bad", rng.choice([1, 2, 3, 12])]], ["assign", other.pop(), rng.randint(0, 9)],
                        ["strict", c, True]]
        if rng.random() < 0.7:
            case["ops"].append(["run", n, []])
    if rng.random() < 0.25:
        # a typed upstream output whose own strictness is off holds a non-int; a strict typed input fetches from it:
        # the delivery itself has to be refused (connection-time hint compatibility says nothing about the data)
        case["u1_typed"] = True
        n = rng.randrange(2)
        c = rng.choice([3, 4] if n == 0 else [5, 6])
        case["ops"] += [["strict", 1, False], ["setout", 1, ["bad", rng.choice([1, 2, 3, 13])]], ["connect", c, 1],
                        rng.choice([["fetch", n], ["run", n, []]])]
    for _ in range(rng.randint(6, 22)):
        r = rng.random()
        inp = rng.choice([3, 4, 5, 6])
        if r < 0.16:
            case["ops"].append(["setout", rng.randrange(3), rng.choice(vals)])
        elif r < 0.30:
            case["ops"].append(["connect", inp, rng.randrange(3)])
        elif r < 0.36:
            case["ops"].append(["connectmany", inp, rng.sample(range(3), rng.choice([2, 2, 3]))])
        elif r < 0.41:
            case["ops"].append(["disconnect", inp, rng.randrange(3)])
        elif r < 0.53:
            case["ops"].append(["assign", inp, rng.choice(vals)])
        elif r < 0.60:
            # strictness of inputs and of (typed or untyped) upstream outputs
            case["ops"].append(["strict", inp if rng.random() < 0.7 else rng.randrange(3), rng.random() < 0.5])
        elif r < 0.66:
            if rng.random() < 0.3:     # output -> output links (what a macro does for its outputs)
                case["ops"].append(["link", rng.randrange(3), rng.randrange(3)])
            else:
                case["ops"].append(["link", rng.choice([3, 4, 5, 6]), rng.choice([3, 4, 5, 6])])
        elif r < 0.74:
            case["ops"].append(["fetch", rng.randrange(2)])
        elif r < 0.93:
            n = rng.randrange(2)
            kw = []
            if rng.random() < 0.35:
                kw = [[rng.choice([3, 4] if n == 0 else [5, 6]), rng.choice(vals[:7])]]
            case["ops"].append(["run", n, kw])
        elif r < 0.97:
            case["ops"].append(["lock", rng.randrange(2), rng.random() < 0.6])
        else:
            case["ops"].append(["failed", rng.randrange(2), rng.random() < 0.6])
    return case


def gen_link(rng):
    """round 7: a value link whose SENDING input is hinted but has its strictness off while the RECEIVING input (of the
    other node) is hinted and strict; an ill-typed value is delivered to the sender (assignment, run keyword, or fetch
    from an upstream output): the receiver's own check has to refuse it -- what the sender's hint promises says nothing
    about a value the sender never validated"""
    case = gen(rng)
    case["typed"] = [True, True]
    n = rng.randrange(2)
    snd = rng.choice([3, 4] if n == 0 else [5, 6])
    rcv = rng.choice([5, 6] if n == 0 else [3, 4])
    bad = ["bad", rng.choice([1, 2, 3, 12])]
    pre = [["link", snd, rcv], ["strict", snd, False]]
    r = rng.random()
    if r < 0.4:
        pre.append(["assign", snd, bad])
    elif r < 0.7:
        pre.append(["run", n, [[snd, bad]]])
    else:
        case["u1_typed"] = False
        pre += [["setout", 1, bad], ["connect", snd, 1], rng.choice([["fetch", n], ["run", n, []]])]
    if rng.random() < 0.5:
        pre.append(["run", 1 - n, []])
    case["ops"] = pre + case["ops"][: rng.randint(0, 10)]
    return case


def generate(ctx):
    return [gen(ctx.rng) for _ in range(ctx.n(700, 8000))] + [gen_link(ctx.rng) for _ in range(ctx.n(120, 1200))]


def corpus(ctx):
    import json
    out = []
    for p in sorted((lib.VERIF / "corpus" / PROP).glob("*.json")):
        out.extend(json.loads(p.read_text()))
    return out


def build(case):
    up_t, d_t = FLAVOUR[case.get("hint", "int")]
    _WRAP[0] = case.get("hint", "int") != "int"
    ups = [Up(label="u0"), (up_t if case["u1_typed"] else Up)(label="u1"), Up(label="u2")]
    for u in ups:
        u.outputs.y.value = val_py(None)
    ds = [(d_t if case["typed"][i] else DU)(label=f"d{i}") for i in range(2)]
    for d in ds:
        d.use_cache = False
        d.recovery = None
    chans = [ups[0].outputs.y, ups[1].outputs.y, ups[2].outputs.y, ds[0].inputs.a, ds[0].inputs.b, ds[1].inputs.a,
             ds[1].inputs.b, ds[0].outputs.y, ds[1].outputs.y]
    return ups, ds, chans


def run_impl(case):
    from pyiron_workflow.channels import ChannelConnectionError
    from pyiron_workflow.mixin.run import ReadinessError
    nodes.reset()
    ups, ds, ch = build(case)
    names = {3: "a", 4: "b", 5: "a", 6: "b"}
    tr = []
    for op in case["ops"]:
        out = "ok"
        n_calls = len(nodes.CALLS)
        try:
            if op[0] in ("setout", "assign"):
                c = op[1] if op[0] == "assign" else op[1]
                ch[c].value = val_py(op[2])
            elif op[0] == "connect":
                ch[op[1]].connect(ch[op[2]])
            elif op[0] == "connectmany":
                ch[op[1]].connect(*[ch[u] for u in op[2]])
            elif op[0] == "disconnect":
                ch[op[1]].disconnect(ch[op[2]])
            elif op[0] == "strict":
                ch[op[1]].strict_hints = op[2]
            elif op[0] == "link":
                ch[op[1]].value_receiver = ch[op[2]]
            elif op[0] == "fetch":
                ds[op[1]].inputs.fetch()
            elif op[0] == "run":
                kw = {names[c]: val_py(v) for c, v in op[2]}
                ds[op[1]].run(**kw)
            elif op[0] == "lock":
                ds[op[1]].running = op[2]
            elif op[0] == "failed":
                ds[op[1]].failed = op[2]
        except ReadinessError:
            out = "Readiness"
        except TypeError:
            out = "TypeErr"
        except ChannelConnectionError:
            out = "Conn"
        except RecursionError:
            out = "Recursion"
        except RuntimeError:
            out = "Locked"
        except ValueError:
            out = "SelfLink"
        if len(nodes.CALLS) > n_calls:
            out = ["called", [val_obs(a) for a in nodes.CALLS[-1][1]]]
        tr.append([out, [val_obs(c.value) for c in ch], [bool(d.failed) for d in ds],
                   [[id2 for id2, c2 in enumerate(ch) if c2 in c.connections] if i in (3, 4, 5, 6) else [] for i, c in enumerate(ch)],
                   [[ch.index(x) for x in c.connections] for c in ch[3:7]]])
    return tr


def model_view(case, obs):
    return [[o, vals] for o, vals, failed, _, _ in obs]


def slot_coq(v):
    if v is None:
        return "None"
    if isinstance(v, list):
        return f"(Some (VBad {cz(v[1])}))"
    return f"(Some (VZ {cz(v)}))"


def op_coq(op):
    k = op[0]
    if k == "setout":
        return f"FSetOut {cn(op[1])} {slot_coq(op[2])}"
    if k == "assign":
        return f"FAssign {cn(op[1])} {slot_coq(op[2])}"
    if k == "connect":
        return f"FConnect {cn(op[1])} {cn(op[2])}"
    if k == "connectmany":
        return f"FConnectMany {cn(op[1])} {cl(cn(u) for u in op[2])}"
    if k == "disconnect":
        return f"FDisconnect {cn(op[1])} {cn(op[2])}"
    if k == "strict":
        return f"FStrict {cn(op[1])} {cb(op[2])}"
    if k == "link":
        return f"FLink {cn(op[1])} {cn(op[2])}"
    if k == "fetch":
        return f"FFetch {cn(op[1])}"
    if k == "run":
        return f"FRun {cn(op[1])} " + cl(f"({cn(c)}, {slot_coq(v)})" for c, v in op[2])
    if k == "lock":
        return f"FLock {cn(op[1])} {cb(op[2])}"
    if k == "failed":
        return f"FFailed {cn(op[1])} {cb(op[2])}"
    raise ValueError(op)


def model_term(case):
    def mk(hinted, owner):
        ow = "None" if owner is None else f"(Some {cn(owner)})"
        return (f"{{| c_val := None; c_hinted := {cb(hinted)}; c_strict := true; c_recv := None; c_conns := []; "
                f"c_owner := {ow} |}}")
    t0, t1 = case["typed"]
    chans = [mk(False, None), mk(case["u1_typed"], None), mk(False, None), mk(t0, 0), mk(t0, 0), mk(t1, 1), mk(t1, 1),
             mk(False, None), mk(False, None)]
    st = f"{{| f_store := {{| chans := {cl(chans)}; running := [false; false] |}}; f_failed := [false; false] |}}"
    nodes_ = "[{| n_inputs := [3%nat; 4%nat]; n_output := 7%nat |}; {| n_inputs := [5%nat; 6%nat]; n_output := 8%nat |}]"
    return f"obs_hist {nodes_} {st} {cl(op_coq(o) for o in case['ops'])}"


# ---- the property, checked on the implementation's own trace ---------------------------------------
def oracle(case, obs):
    if not isinstance(obs, list) or (obs and obs[0] == "HARNESS-EXC"):
        return f"crash: {obs}"
    typed = {0: False, 1: case["u1_typed"], 2: False, 3: case["typed"][0], 4: case["typed"][0], 5: case["typed"][1],
             6: case["typed"][1], 7: False, 8: False}
    strict = {c: True for c in range(9)}
    prev_vals = ["nd"] * 9
    prev_conns = [[], [], [], []]
    prev_failed = [False, False]
    lockd = [False, False]
    recv = {}
    exp_conns = [[], [], [], []]      # what "most recently connected first" means, derived from the operations alone
    for op, (out, vals, failed, _, conns) in zip(case["ops"], obs):
        if op[0] in ("connect", "connectmany") and out == "ok":
            for u in ([op[2]] if op[0] == "connect" else op[2]):
                if u not in exp_conns[op[1] - 3]:
                    exp_conns[op[1] - 3].insert(0, u)
        if op[0] == "disconnect" and op[2] in exp_conns[op[1] - 3]:
            exp_conns[op[1] - 3].remove(op[2])
        if conns != exp_conns:
            return (f"wrong-priority-order: after {op} the inputs consult their connections in the order {conns}, "
                    f"most-recently-connected-first is {exp_conns}")
        # (3) no strictly hinted channel ever holds a non-int
        for c in range(9):
            if typed[c] and strict[c] and isinstance(vals[c], list) and vals[c] != prev_vals[c]:
                return f"bad-store: op {op} stored {vals[c]} in the strictly hinted channel {c}"
        if op[0] in ("fetch", "run"):
            n = op[1]
            ins = [3, 4] if n == 0 else [5, 6]
            pv = list(prev_vals)
            if op[0] == "run":
                for c, v in op[2]:
                    if out not in ("TypeErr", "Locked") or True:
                        pass
            called = isinstance(out, list) and out[0] == "called"
            if called:
                # resolve every input from the pre-state: first connection (newest first) holding data, else own value
                kw = {c: (["bad", v[1]] if isinstance(v, list) else v) for c, v in (op[2] if op[0] == "run" else [])}
                exp = []
                for c in ins:
                    own = kw.get(c, pv[c])
                    got = own
                    for u in prev_conns[c - 3]:
                        if pv[u] != "nd":
                            got = pv[u]
                            break
                    exp.append(got)
                forwarded_into = any(r in ins for r in recv.values())   # a value link may overwrite an input during delivery
                if out[1] != exp and not forwarded_into:
                    return (f"wrong-args: run of d{n} called the function with {out[1]}, connection priority over the "
                            f"pre-state gives {exp}")
                if any(a == "nd" for a in out[1]):
                    return f"ran-on-missing: d{n} was called with NOT_DATA"
                if any(isinstance(a, list) and typed[c] and strict[c] for a, c in zip(out[1], ins)):
                    return f"ran-on-ill-typed: d{n} was called with a value its strict hint rejects"
                if lockd[n] or prev_failed[n]:
                    return f"ran-while-not-ready: d{n} ran although it was running/failed"
            elif op[0] == "run":
                if out == "ok":
                    return f"silent-skip: run of d{n} neither called the function nor raised"
                out_ch = 7 if n == 0 else 8
                if vals[out_ch] != prev_vals[out_ch]:
                    return f"refused-but-output-changed: refused run of d{n} changed its output"
                if failed[n] != prev_failed[n]:
                    return f"refused-but-failed: refused run of d{n} changed its failed flag"
        if op[0] == "link" and out == "ok":
            recv[op[1]] = op[2]
        if op[0] == "strict":
            strict[op[1]] = op[2]
        if op[0] == "lock":
            lockd[op[1]] = op[2]
        if op[0] in ("assign", "setout") and out != "ok" and vals != prev_vals:
            return f"rejected-but-changed: rejected assignment {op} changed channel values"
        prev_vals, prev_conns, prev_failed = vals, conns, failed
    return None


def known(case, obs, verdict):
    return None


def nontrivial(case, obs):
    if not isinstance(obs, list):
        return False
    multi = any(len(c) >= 2 for o in obs for c in o[4])
    refused = any(o[0] in ("Readiness", "TypeErr", "Locked") for o in obs)
    return multi and refused


def key(case):
    return case


def shrink_candidates(case):
    ops = case["ops"]
    for i in range(len(ops)):
        yield dict(case, ops=ops[:i] + ops[i + 1:])


def distribution(results):
    d = {"ops": 0, "called": 0, "Readiness": 0, "TypeErr": 0, "Locked": 0, "Recursion": 0, "SelfLink": 0, "max_conns": 0}
    for c, enc, v, o in results:
        if not isinstance(o, list):
            continue
        for step in o:
            if not isinstance(step, list) or len(step) < 5:
                continue
            d["ops"] += 1
            out = step[0]
            if isinstance(out, list):
                d["called"] += 1
            elif out in d:
                d[out] += 1
            d["max_conns"] = max(d["max_conns"], max((len(x) for x in step[4]), default=0))
    return d

