"""C08 -- a failed run can be restored from its recovery file and resumed to the same end;
the same from a checkpoint a node wrote when it finished.

Scenarios: a DAG Workflow `wf` of function nodes that raise when an argument is negative, with
nested macros (generic macro classes GM0..GM3 at module level, populated from a pending
description at construction time), everything local.

 fail : run (raises) -> files on disk -> Workflow("wf", autoload=None).load(filename=wf/recovery)
        -> assign a non-negative value to the negative input of every node marked failed, clear
        every failure flag -> run again -> ... until a run returns; compared with an uninterrupted
        twin that never had the negative values.
 ckpt : one node (leaf, macro or the workflow) carries a checkpoint back end that also copies the
        file at the moment it is written ("the process died right after that save"); the copy is
        loaded and resumed under one of three protocols: `stated` (what the property says: fix,
        clear failure flags, run), `all` (also clear `running` wherever the image has it set),
        `root` (clear `running` on the workflow only).

The model (Resume.v) lists the children of every composite in the order the parent's loop visits
them; that order is computed here by a small FIFO simulation of the all-of wiring (C01's
discipline) from the starting nodes of the built graph, and validated on every case through the
ordered call logs and the contents of every image.
"""
from __future__ import annotations

import json
import os
import shutil
import tempfile
from pathlib import Path

from harness import lib, nodes
from harness.lib import cl, cn, cz

PROP = "C08"
IMPORTS = "Base Resume"
RULE = ("random DAG workflows of 2-8 nodes (function nodes with 1-3 inputs fed by constants, earlier siblings or macro "
        "parameters; macros nested up to depth 2 with 0-3 parameters, each used once); per graph EVERY leaf as the single "
        "failing node, some pairs/triples of failing nodes (several recoveries in sequence), and EVERY node (leaf, macro, "
        "workflow) as the checkpointing node under the protocols all/stated/root, some with a failing node as well; all "
        "attempts of one history share ONE directory; some nodes return their value wrapped in a closure (only cloudpickle "
        "can store it), incl. directed chains that fail before and again after such a node completed, so that recovery "
        "files of both pickle flavours follow each other; some node classes are made by a factory function (<locals>, graph "
        "not import_ready); `prior` histories first run an EARLIER GENERATION of the same-labelled graph (same shape, importable "
        "classes, other constants) in the same directory -- it fails / is checkpointed by the same node -- and the checkpoint "
        "is loaded BY NAME from that directory. "
        "Non-trivial: at least one function completed before the cut and at least one after; distinct by content.")
TRUSTED = ["harness FIFO simulation of the visiting order of each composite (validated by ordered call logs and image contents)",
           "checkpoint cut = copy of the checkpoint file taken inside the storage back end right after it is written"]
ASSUMPTIONS = ["node functions are deterministic and raise iff an argument is negative (-6: a KeyboardInterrupt subclass, i.e. "
               "Ctrl-C landing in the body; -7/-8/-9: ReadinessError/IndexError/KeyError subclasses; else the harness's exception); "
               "removing the cause = assigning a non-negative value to the negative unconnected input of the failed node",
               "all nodes run locally (a failing child on an executor does not fail its parent: C06/S6)",
               "every macro parameter feeds exactly one child input (no UserInput nodes remain inside macros)",
               "the cache key of a composite is reset by loading (children are re-adopted); not compared between memory and file",
               "checkpoint protocol read from the statement: same as for a recovery file (fix, clear failure flags, run); "
               "clearing `running` is NOT part of it -- see known findings S19 (refused) and S28 (file cannot be loaded)",
               "every run is given 10 s (SIGALRM; 1 s once five runs of the process have hung); a run that does not end is reported as TIMEOUT"]

from pyiron_workflow.nodes.function import as_function_node  # noqa: E402
from pyiron_workflow.nodes.macro import as_macro_node  # noqa: E402
from pyiron_workflow.storage import PickleStorage  # noqa: E402


CLO = 1000      # a leaf with k >= CLO hands its number on wrapped in a closure: plain pickle cannot store it


BOX = 500       # a leaf with BOX <= k < CLO hands its number on inside an object WITHOUT value equality (a copy of
                # it is not == to it): remembered inputs can only be recognised by identity, which pickle preserves


class Box:
    def __init__(self, v):
        self.v = v

    def __call__(self):
        return self.v


def _unwrap(v):
    return v() if callable(v) else v


LOC = 2000      # a leaf with k >= LOC has a class made by a factory function (<locals>): the graph is not import_ready


def _wrap(k, v):
    if BOX <= k < CLO:
        return Box(v)
    if not CLO <= k < LOC:
        return v

    def held():     # a closure over v: fine for cloudpickle, impossible for plain pickle
        return v
    return held


@as_function_node("y")
def K1(tag, k, a):
    return _wrap(k, nodes.chk(tag, k, [_unwrap(a)]))


@as_function_node("y")
def K2(tag, k, a, b):
    return _wrap(k, nodes.chk(tag, k, [_unwrap(a), _unwrap(b)]))


@as_function_node("y")
def K3(tag, k, a, b, c):
    return _wrap(k, nodes.chk(tag, k, [_unwrap(a), _unwrap(b), _unwrap(c)]))


def local_cls(n):
    """a node class made to order: it lives in <locals>, cannot be imported, and only cloudpickle can store its nodes"""
    if n == 1:
        @as_function_node("y")
        def KL1(tag, k, a):
            return _wrap(k, nodes.chk(tag, k, [_unwrap(a)]))
        return KL1
    if n == 2:
        @as_function_node("y")
        def KL2(tag, k, a, b):
            return _wrap(k, nodes.chk(tag, k, [_unwrap(a), _unwrap(b)]))
        return KL2

    @as_function_node("y")
    def KL3(tag, k, a, b, c):
        return _wrap(k, nodes.chk(tag, k, [_unwrap(a), _unwrap(b), _unwrap(c)]))
    return KL3


KCLS = {1: K1, 2: K2, 3: K3}
ARG = ["a", "b", "c"]
_PENDING: list = []     # descriptions of the macros under construction (consumed by the graph creators)
_TAGS: list = []        # running tag counter of the build in progress


def _populate(self, params):
    spec = _PENDING.pop()
    kids = _build_kids(self, spec[3], params)
    return kids[spec[1]]


@as_macro_node("out")
def GM0(self):
    return _populate(self, [])


@as_macro_node("out")
def GM1(self, p0):
    return _populate(self, [p0])


@as_macro_node("out")
def GM2(self, p0, p1):
    return _populate(self, [p0, p1])


@as_macro_node("out")
def GM3(self, p0, p1, p2):
    return _populate(self, [p0, p1, p2])


GM = [GM0, GM1, GM2, GM3]


def _out_channel(node, spec):
    return node.outputs["y"] if spec[0] == "L" else node.outputs["out"]


def _build_kids(parent, kidspecs, params):
    kids = []
    for i, ks in enumerate(kidspecs):
        ins = ks[2]
        names = ARG if ks[0] == "L" else [f"p{j}" for j in range(len(ins))]
        kw = {}
        for j, inp in enumerate(ins):
            if inp[0] == "c":
                kw[names[j]] = inp[1]
            elif inp[0] == "u":
                kw[names[j]] = _out_channel(kids[inp[1]], kidspecs[inp[1]])
            else:
                kw[names[j]] = params[inp[1]]
        if ks[0] == "L":
            tag = _TAGS[0]
            _TAGS[0] += 1
            cls = local_cls(len(ins)) if ks[1] >= LOC else KCLS[len(ins)]
            node = cls(label=f"n{i}", tag=tag, k=ks[1], **kw)
        else:
            _PENDING.append(ks)
            node = GM[len(ins)](label=f"n{i}", **kw)
        parent.add_child(node)
        kids.append(node)
    return kids


def build(tree):
    from pyiron_workflow import Workflow
    _PENDING.clear()
    _TAGS[:] = [0]
    wf = Workflow("wf", autoload=None)
    _build_kids(wf, tree[3], [])
    return wf


# ---- descriptions --------------------------------------------------------------------------
def walk(spec, path=()):
    """(spec path, node description) in the order in which tags are given (construction order)"""
    yield path, spec
    if spec[0] == "M":
        for i, k in enumerate(spec[3]):
            yield from walk(k, path + (i,))


def leaf_paths(tree):
    return [p for p, s in walk(tree) if s[0] == "L"]


def tag_table(tree):
    return {p: t for t, p in enumerate(leaf_paths(tree))}


def at_spec(tree, path):
    s = tree
    for i in path:
        s = s[3][i]
    return s


def at_node(root, path):
    n = root
    for i in path:
        n = n.children[f"n{i}"]
    return n


def ups(ks):
    out = []
    for inp in ks[2]:
        if inp[0] == "u" and inp[1] not in out:
            out.append(inp[1])
    return out


def fifo_order(kidspecs, starting):
    """the order in which Composite._on_run / _run_while_children_or_signals_exist visit the children:
    starting nodes in the given order, then the signal queue (a finished node enqueues its `ran` for the
    receivers in reverse child order; a receiver fires when it has heard from every upstream sibling)"""
    n = len(kidspecs)
    up = [ups(k) for k in kidspecs]
    downs = [[m for m in reversed(range(n)) if u in up[m]] for u in range(n)]
    order, queue, heard = [], [], [set() for _ in range(n)]

    def fire(x):
        order.append(x)
        queue.extend((x, m) for m in downs[x])
    for s in starting:
        fire(s)
    while queue:
        u, m = queue.pop(0)
        heard[m].add(u)
        if heard[m] >= set(up[m]):
            heard[m] = set()
            fire(m)
    return order


_ORDERS: dict = {}


def orders(tree):
    """visiting order of the children of every composite: {spec path: [child indices]}"""
    key = json.dumps(tree)
    if key in _ORDERS:
        return _ORDERS[key]
    wf = build(tree)
    wf.set_run_signals_to_dag_execution()
    out = {}
    for p, s in walk(tree):
        if s[0] == "M":
            comp = at_node(wf, p)
            starting = [int(x.label[1:]) for x in comp.starting_nodes]
            o = fifo_order(s[3], starting)
            assert sorted(o) == list(range(len(s[3]))), (o, s)
            out[p] = o
    _ORDERS[key] = out
    return out


def mpath(tree, path):
    """spec path -> model path (positions in visiting order)"""
    o = orders(tree)
    return [o[tuple(path[:d])].index(path[d]) for d in range(len(path))]


# ---- the model term -----------------------------------------------------------------------------
def _slot_coq(v):
    return "None" if v is None else f"(Some {cz(v)})"


def _node_coq(tree, spec, path, pvals):
    """pvals: initial values of the enclosing macro's inputs (what was pushed at construction)"""
    o = orders(tree)
    inp, vals = [], []
    par_order = []
    if path:
        par_order = o[tuple(path[:-1])]
    for x in spec[2]:
        if x[0] == "c":
            inp.append(f"(SOwn, {_slot_coq(x[1])})")
            vals.append(x[1])
        elif x[0] == "u":
            inp.append(f"(SUp {cn(par_order.index(x[1]))}, None)")
            vals.append(None)
        else:
            inp.append(f"(SPar {cn(x[1])}, {_slot_coq(pvals[x[1]])})")
            vals.append(pvals[x[1]])
    st = "{| outv := None; cached := None; failed := false; running := false |}"
    if spec[0] == "L":
        return f"(Leaf {cz(spec[1])} {cl(inp)} {st})"
    my = o[tuple(path)]
    kids = [_node_coq(tree, spec[3][i], tuple(path) + (i,), vals) for i in my]
    ret = my.index(spec[1]) if spec[3] else 0
    return f"(Macro {cl(inp)} {cn(ret)} {st} {cl(kids)})"


def tree_coq(tree):
    return _node_coq(tree, tree, (), [])


def nbad(tree):
    return sum(1 for p, s in walk(tree) if s[0] == "L" for inp in s[2] if inp[0] == "c" and inp[1] < 0)


def fuel(case):
    return nbad(case["tree"]) + 2


def gen1(tree):
    """the earlier generation of the same-labelled graph: same shape, every class importable, other constants"""
    def go(s):
        if s[0] == "L":
            return ["L", s[1] - LOC if s[1] >= LOC else s[1], [["c", i[1] + 1] if i[0] == "c" and i[1] >= 0 else i for i in s[2]]]
        return ["M", s[1], [["c", i[1] + 1] if i[0] == "c" and i[1] >= 0 else i for i in s[2]], [go(k) for k in s[3]]]
    return go(tree)


def model_term(case):
    t = tree_coq(case["tree"])
    g1 = f"(Some {tree_coq(gen1(case['tree']))})" if case.get("prior") else "None"
    if case["kind"] == "fail":
        return f"obs_fail {cn(fuel(case))} {g1} {t}"
    pr = {"stated": "PStated", "all": "PAll", "root": "PRoot"}[case["proto"]]
    c = cl(cn(i) for i in mpath(case["tree"], case["cut"]))
    return f"obs_ckpt {cn(fuel(case))} {pr} {c} {g1} {t}"


# ---- the implementation ---------------------------------------------------------------------------
class Snap(PickleStorage):
    """checkpoint back end that also keeps a copy of the file as it is right after the save"""

    def __init__(self, snapdir):
        super().__init__()
        self.snapdir = snapdir

    def _save(self, node, filename, /, **kw):
        super()._save(node, filename, **kw)
        dst = Path(self.snapdir)
        if not dst.is_dir() or (dst / "calls.json").exists():
            return      # only the first save is "the last thing that survives"
        for suf in (".pckl", ".cpckl"):
            p = filename.with_suffix(suf)
            if p.exists():
                shutil.copy(p, dst / ("snap" + suf))
        (dst / "calls.json").write_text(json.dumps([[t, all(x >= 0 for x in a)] for t, a in nodes.CALLS]))


def _slot(v):
    from pyiron_workflow.channels import NOT_DATA
    return "nd" if v is NOT_DATA else int(_unwrap(v))


def snap(tree, root):
    o = orders(tree)

    def go(node, spec, path):
        if spec[0] == "L":
            c = node._cached_inputs
            return [_slot(node.outputs["y"].value),
                    "none" if c is None else [_slot(c[ARG[j]]) for j in range(len(spec[2]))],
                    bool(node.failed), bool(node.running), [_slot(node.inputs[ARG[j]].value) for j in range(len(spec[2]))]]
        my = o[path]
        kids = [go(node.children[f"n{i}"], spec[3][i], path + (i,)) for i in my]
        if path:
            out = _slot(node.outputs["out"].value)
        else:       # the workflow has no output of its own: the model's root mirrors its first-listed `ret` child
            out = kids[my.index(spec[1])][0] if kids else "nd"
        return [out, node._cached_inputs is not None, bool(node.failed), bool(node.running),
                [_slot(node.inputs[f"p{j}"].value) for j in range(len(spec[2]))], kids]
    return go(root, tree, ())


class _Timeout(BaseException):
    pass


def _alarm(signum, frame):
    raise _Timeout()


_TIMEOUTS = [0]     # runs of this process that did not end (after five of them the others get 1 s instead of 10 s)


def _verdict(fn):
    """run fn; the class of what it raised (a run that does not end within 10 s is reported as such)"""
    import signal
    from pyiron_workflow.mixin.run import ReadinessError
    from pyiron_workflow.nodes.composite import FailedChildError
    old = signal.signal(signal.SIGALRM, _alarm)
    signal.alarm(10 if _TIMEOUTS[0] < 5 else 1)     # a tree on which runs hang must not stall the whole check
    try:
        fn()
        return "ok"
    except _Timeout:
        _TIMEOUTS[0] += 1
        return "TIMEOUT"
    except nodes.UserInterrupt:      # a KeyboardInterrupt raised by a node function: must not take the check down
        return "KeyboardInterrupt"
    except nodes.UserExc:
        return "UserExc"
    except ReadinessError:
        return "ReadinessError"
    except FailedChildError:
        return "FailedChildError"
    except RuntimeError:
        return "RuntimeError"
    except Exception as e:      # noqa
        return "EXC:" + type(e).__name__
    finally:
        signal.alarm(0)
        signal.signal(signal.SIGALRM, old)


def _files():
    cwd = Path.cwd()
    return sorted(str(p.relative_to(cwd)) for p in cwd.rglob("*") if p.is_file())


def _recover(tree, root):
    """remove the cause on every failed leaf and clear every failure flag"""
    for p, s in walk(tree):
        node = at_node(root, p)
        if s[0] == "L" and node.failed:
            for j, inp in enumerate(s[2]):
                if inp[0] == "c":
                    v = node.inputs[ARG[j]].value
                    if _slot(v) != "nd" and v < 0:
                        node.inputs[ARG[j]].value = -v
        node.failed = False


def _all_nodes(tree, root):
    return [(p, s, at_node(root, p)) for p, s in walk(tree)]


def _rounds(tree, cur, cap, workdir, prior=None):
    """attempt after attempt in ONE directory, as a user would: the recovery file of a later failure has to
    replace that of an earlier one"""
    from pyiron_workflow import Workflow
    out = []
    d = tempfile.mkdtemp(prefix="r", dir=workdir)
    os.chdir(d)
    rec = Path(d) / "wf" / "recovery"
    if prior is not None:       # yesterday's version of the same workflow failed here and left its recovery file
        _verdict(build(prior).run)
        cur = build(tree)
    for _ in range(cap):
        nodes.CALLS.clear()
        v = _verdict(cur.run)
        calls = [[t, all(x >= 0 for x in a)] for t, a in nodes.CALLS]
        rnd = {"verdict": v, "calls": calls, "files": _files(), "mem": snap(tree, cur), "loaded": None}
        out.append(rnd)
        if v == "ok" or not (rec.with_suffix(".pckl").exists() or rec.with_suffix(".cpckl").exists()):
            break
        loaded = Workflow("wf", autoload=None)
        err = _verdict(lambda: loaded.load(filename=rec))
        if err != "ok":
            rnd["loaded"] = "unloadable"
            rnd["load_error"] = err
            break
        rnd["loaded"] = snap(tree, loaded)
        _recover(tree, loaded)
        cur = loaded
    return out


def _fixed(tree):
    def go(s):
        if s[0] == "L":
            return ["L", s[1], [["c", -i[1]] if i[0] == "c" and i[1] < 0 else i for i in s[2]]]
        return ["M", s[1], s[2], [go(k) for k in s[3]]]
    return go(tree)


def _twin(tree, workdir):
    d = tempfile.mkdtemp(prefix="t", dir=workdir)
    os.chdir(d)
    ft = _fixed(tree)
    wf = build(ft)
    nodes.CALLS.clear()
    v = _verdict(wf.run)
    return {"verdict": v, "mem": snap(tree, wf), "calls": [t for t, a in nodes.CALLS]}


def run_impl(case):
    ki = nodes.KI_ENABLED
    nodes.KI_ENABLED = True      # an argument -6 is a Ctrl-C landing in the function body (every run goes through _verdict)
    try:
        return _run_impl(case)
    finally:
        nodes.KI_ENABLED = ki


def _run_impl(case):
    from pyiron_workflow import Workflow
    tree = case["tree"]
    orders(tree)
    old = os.getcwd()
    workdir = tempfile.mkdtemp(prefix="c08_")
    try:
        nodes.reset()
        prior = gen1(tree) if case.get("prior") else None
        if case["kind"] == "fail":
            wf = build(tree)
            return {"rounds": _rounds(tree, wf, fuel(case), workdir, prior), "twin": _twin(tree, workdir)}
        d = tempfile.mkdtemp(prefix="a", dir=workdir)
        snapdir = tempfile.mkdtemp(prefix="s", dir=workdir)
        os.chdir(d)
        if prior is not None:       # yesterday's version was checkpointed by the same node in this directory
            wf1 = build(prior)
            at_node(wf1, case["cut"]).checkpoint = Snap(tempfile.mkdtemp(prefix="s", dir=workdir))
            _verdict(wf1.run)
        wf = build(tree)
        at_node(wf, case["cut"]).checkpoint = Snap(snapdir)
        nodes.CALLS.clear()
        v = _verdict(wf.run)
        if not (Path(snapdir) / "calls.json").exists():
            return {"cut": False, "verdict": v}
        before = json.loads((Path(snapdir) / "calls.json").read_text())
        ckfiles = sorted(f.name for f in (Path(d) / "wf").iterdir() if f.name.startswith("snap."))
        loaded = Workflow("wf", autoload=None)
        err = _verdict(lambda: loaded.load(filename=Path(d) / "wf" / "snap"))      # BY NAME, from where it was written
        shutil.rmtree(d, ignore_errors=True)
        os.chdir(workdir)
        if err != "ok":
            return {"cut": True, "before": before, "ckfiles": ckfiles, "image": None, "load_error": err}
        image = snap(tree, loaded)
        at_node(loaded, case["cut"]).checkpoint = None
        _recover(tree, loaded)
        if case["proto"] == "all":
            for p, s, n in _all_nodes(tree, loaded):
                n.running = False
        elif case["proto"] == "root":
            loaded.running = False
        return {"cut": True, "before": before, "ckfiles": ckfiles, "image": image, "rounds": _rounds(tree, loaded, fuel(case), workdir),
                "twin": _twin(tree, workdir)}
    finally:
        os.chdir(old)
        shutil.rmtree(workdir, ignore_errors=True)


# ---- what the model is compared with ------------------------------------------------------------------
def _save_paths(tree, files):
    """recovery files -> [model path of the node they were written for, flavour]; anything else stays a name"""
    out = []
    for f in files:
        parts = f.split("/")
        if parts[-1] in ("recovery.pckl", "recovery.cpckl") and parts[0] == "wf" and \
                all(x[:1] == "n" and x[1:].isdigit() for x in parts[1:-1]):
            sp = [int(x[1:]) for x in parts[1:-1]]
            try:
                out.append([mpath(tree, sp), parts[-1].split(".")[1]])
                continue
            except (KeyError, ValueError, IndexError):
                pass
        out.append(["file", f])
    return out


def model_view(case, o):
    if not isinstance(o, dict):
        return o
    tree = case["tree"]
    lp = leaf_paths(tree)

    def rounds(rs):
        out = []
        for r in rs:
            calls = [mpath(tree, lp[t]) for t, ok in r["calls"]]
            row = [r["verdict"], calls, _save_paths(tree, r["files"]), r["mem"]]
            if r["loaded"] is not None:
                row.append(r["loaded"])
            out.append(row)
        return out
    twin = [o["twin"]["verdict"], o["twin"]["mem"]] if "twin" in o else None
    if case["kind"] == "fail":
        return [rounds(o["rounds"]), twin]
    if not o["cut"]:
        return ["nocut", o["verdict"]]
    ck = [[[], f.split(".")[1]] if f in ("snap.pckl", "snap.cpckl") else ["file", f] for f in o["ckfiles"]]
    if o["image"] is None:
        return ["cut", [mpath(tree, lp[t]) for t, ok in o["before"]], ck, "unloadable"]
    return ["cut", [mpath(tree, lp[t]) for t, ok in o["before"]], ck, o["image"], rounds(o["rounds"]), twin]


# ---- the property, on the implementation's observation ---------------------------------------------------
def _flat(tree, s):
    """snapshot -> {model path: [out, cached, failed, running, ins, is_leaf]}"""
    out = {}

    def go(x, p):
        leaf = len(x) == 5
        out[tuple(p)] = x[:5] + [leaf]
        if not leaf:
            for i, k in enumerate(x[5]):
                go(k, p + [i])
    go(s, [])
    return out


def _same_image(a, b):
    """memory vs file: everything but the cache flag of composites (reset when children are re-adopted)"""
    if len(a) != len(b):
        return False
    if len(a) == 5:
        return a == b
    return a[0] == b[0] and a[2:5] == b[2:5] and len(a[5]) == len(b[5]) and all(_same_image(x, y) for x, y in zip(a[5], b[5]))


def _check_rounds(case, o, done0, first_sig):
    """done0: tags completed before the first resumed run (from the image); returns a violation or None"""
    tree = case["tree"]
    lp = leaf_paths(tree)
    nleaf = len(lp)
    done = set(done0)
    rs = o["rounds"]
    prev_files = []
    for ri, r in enumerate(rs):
        raised = [t for t, ok in r["calls"] if not ok]
        okc = [t for t, ok in r["calls"] if ok]
        again = sorted(set(okc + raised) & done)
        if again:
            return f"recalled: functions of nodes {again} that had completed were called again in run {ri + 1}"
        if len(set(okc)) != len(okc) or len(set(raised)) != len(raised):
            return f"called-twice: a function was called twice in run {ri + 1}"
        done |= set(okc)
        if r["verdict"] == "ok":
            if raised:
                return "swallowed: a function raised but the run returned normally"
            if r["files"] != prev_files:
                return f"stray-files: a run that returned normally changed the files from {prev_files} to {r['files']}"
            if ri != len(rs) - 1:
                return "harness: rounds after a normal return"
            break
        # a run that ended in an exception
        if not raised:
            sig = first_sig if ri == 0 and first_sig else "not-resumed"
            return (f"{sig}: run {ri + 1} after restoring ended in {r['verdict']} although no function raised "
                    f"(running flags in the restored graph: {sorted(p for p, x in _flat(tree, r['mem']).items() if x[3])})")
        if r["files"] not in (["wf/recovery.pckl"], ["wf/recovery.cpckl"]):
            return (f"recovery-misplaced: after the failed run {ri + 1} the files are {r['files']}, expected exactly one "
                    f"recovery file, for the workflow")
        prev_files = r["files"]
        if r["loaded"] == "unloadable":
            return f"recovery-unloadable: loading the recovery file raised {r['load_error']}"
        if r["loaded"] is None or not _same_image(r["mem"], r["loaded"]):
            return (f"image-differs: the graph loaded from the recovery file after failure {ri + 1} is not the graph as it "
                    f"stood at that failure")
        fl = _flat(tree, r["loaded"])
        if any(x[3] for x in fl.values()):
            return "image-running: a node is marked running in the recovery image"
        want_failed = set()
        for t in raised:
            mp = mpath(tree, lp[t])
            for d in range(len(mp) + 1):
                want_failed.add(tuple(mp[:d]))
        got_failed = {p for p, x in fl.items() if x[2]}
        if got_failed != want_failed:
            return (f"image-flags: failed flags on {sorted(got_failed)}, expected the failing nodes and their ancestors "
                    f"{sorted(want_failed)}")
        for t in range(nleaf):
            x = fl[tuple(mpath(tree, lp[t]))]
            if t in done and (x[0] == "nd" or x[1] == "none"):
                return f"image-content: node {t} had completed but the image lacks its output or cache key"
            if t not in done and (x[0] != "nd" or x[1] != "none"):
                return f"image-content: node {t} never completed but the image has an output or cache key for it"
    else:
        return f"not-resumed: still failing after {len(rs)} recoveries ({[r['verdict'] for r in rs]})"
    if len(done) != nleaf:
        return f"not-called: functions of {sorted(set(range(nleaf)) - done)} never completed although the run returned"
    tw = o["twin"]
    if tw["verdict"] != "ok":
        return f"harness: the uninterrupted twin ended in {tw['verdict']}"
    a, b = _flat(tree, rs[-1]["mem"]), _flat(tree, tw["mem"])
    diff = sorted(p for p in a if a[p][0] != b[p][0])
    if diff:
        return f"wrong-end: outputs of {diff} differ from the uninterrupted run: {[(a[p][0], b[p][0]) for p in diff]}"
    return None


def oracle(case, o):
    if not isinstance(o, dict):
        return f"crash: {o}"
    tree = case["tree"]
    if case["kind"] == "fail":
        if nbad(tree) and o["rounds"][0]["verdict"] == "ok":
            return "swallowed: a function raised but the run returned normally"
        return _check_rounds(case, o, set(), None)
    if not o["cut"]:
        return None
    if len(o["ckfiles"]) != 1:
        return (f"checkpoint-files: after the checkpoint the directory holds {o['ckfiles']}, expected exactly one file of "
                f"the checkpoint (an older generation's file must not outlive it)")
    if o["image"] is None:
        return f"checkpoint-unloadable: loading the checkpoint file raised {o['load_error']}"
    lp = leaf_paths(tree)
    fl = _flat(tree, o["image"])
    done = {t for t, ok in o["before"] if ok}        # functions that had returned when the checkpoint was written
    for t in range(len(lp)):
        x = fl[tuple(mpath(tree, lp[t]))]
        if t in done and (x[0] == "nd" or x[1] == "none"):
            return f"image-content: node {t} had completed before the checkpoint but the image lacks its output or cache key"
        if t not in done and (x[0] != "nd" or x[1] != "none"):
            return f"image-content: node {t} had not completed but the checkpoint image has an output or cache key for it"
    return _check_rounds(case, o, done, "checkpoint-not-resumable")


def _running_left(case, o):
    """cause predicate of S19: the checkpoint image marks a node running and the protocol leaves that flag set"""
    if case["kind"] != "ckpt" or not isinstance(o, dict) or not o.get("cut") or o["image"] is None:
        return False
    marked = [p for p, x in _flat(case["tree"], o["image"]).items() if x[3]]
    if case["proto"] == "stated":
        return bool(marked)
    if case["proto"] == "root":
        return any(len(p) > 0 for p in marked)
    return False


def _inner_macro_running(case, o):
    """cause predicate of S28: the checkpointing node lies inside a macro that is itself inside a macro and takes one
    of its inputs through a value link from the enclosing macro (that inner macro is marked running in the file)"""
    if case["kind"] != "ckpt" or not isinstance(o, dict) or not o.get("cut"):
        return False
    cut = case["cut"]
    return any(any(i[0] == "p" for i in at_spec(case["tree"], cut[:d])[2]) for d in range(2, len(cut)))


def known(case, o, verdict):
    if verdict.split(":")[0] == "checkpoint-unloadable" and _inner_macro_running(case, o):
        return "S28-checkpoint-file-unloadable-running-linked-macro"
    if verdict.split(":")[0] in ("checkpoint-not-resumable", "not-resumed") and _running_left(case, o):
        return "S19-checkpoint-image-marks-ancestors-running"
    return None


# ---- generation -----------------------------------------------------------------------------------------
def gen_comp(rng, depth, budget, nparams):
    """children of one composite; returns (kids, nodes used)"""
    nk = rng.randint(1 if depth else 2, max(2 if not depth else 1, min(budget, rng.choice([2, 3, 3, 4, 5]))))
    kids, used = [], 0
    for i in range(nk):
        left = budget - used - (nk - i - 1)
        if depth < 2 and left >= 3 and rng.random() < (0.4 if depth == 0 else 0.5):
            np_ = rng.choice([0, 1, 1, 2, 2, 3])
            sub, u = gen_comp(rng, depth + 1, min(left - 1, rng.choice([2, 3, 4])), np_)
            ins = [(["u", rng.randrange(i)] if i and rng.random() < 0.7 else ["c", rng.randint(0, 30)]) for _ in range(np_)]
            kids.append(["M", rng.randrange(len(sub)) if rng.random() < 0.3 else len(sub) - 1, ins, sub])
            used += 1 + u
        else:
            m = rng.choice([1, 2, 2, 3])
            ins = [["c", rng.randint(0, 30)]]
            for _ in range(m - 1):
                ins.append(["u", rng.randrange(i)] if i and rng.random() < 0.65 else ["c", rng.randint(0, 30)])
            rng.shuffle(ins)
            kids.append(["L", rng.randint(0, 99), ins])
            used += 1
    # every parameter feeds exactly one child input (never the only constant of a leaf)
    for pi in range(nparams):
        slots = [(i, j) for i, k in enumerate(kids) for j, inp in enumerate(k[2])
                 if inp[0] != "p" and not (k[0] == "L" and inp[0] == "c" and sum(1 for x in k[2] if x[0] == "c") == 1)]
        if not slots:
            k = next(k for k in kids if k[0] == "L" and len(k[2]) < 3) if any(k[0] == "L" and len(k[2]) < 3 for k in kids) else None
            if k is None:
                kids.append(["L", rng.randint(0, 99), [["c", rng.randint(0, 30)], ["p", pi]]])
                used += 1
            else:
                k[2].append(["p", pi])
            continue
        i, j = rng.choice(slots)
        kids[i][2][j] = ["p", pi]
    return kids, used


def gen_tree(rng):
    kids, _ = gen_comp(rng, 0, rng.choice([2, 3, 4, 5, 6, 6, 7, 7, 8, 8]), 0)
    return ["M", 0, [], kids]


def with_clo(tree, rng, prob):
    """some leaves hand their value on as a closure (k >= CLO): their image needs the cloudpickle flavour"""
    t = json.loads(json.dumps(tree))
    for p, s in walk(t):
        if s[0] == "L" and rng.random() < prob:
            s[1] = CLO + s[1] % 100
        elif s[0] == "L" and rng.random() < prob / 2:
            s[1] = BOX + s[1] % 100
    return t


def with_loc(tree, rng, prob):
    """some leaves get a class made by a factory function (k >= LOC): the graph is not import_ready; at least one"""
    t = json.loads(json.dumps(tree))
    ls = [s for p, s in walk(t) if s[0] == "L"]
    for s in ls:
        if rng.random() < prob:
            s[1] = LOC + s[1] % 100
    if not any(s[1] >= LOC for s in ls):
        s = rng.choice(ls)
        s[1] = LOC + s[1] % 100
    return t


def gen_two_failures(rng):
    """a chain (with side branches) failing first BEFORE a closure-valued node completes and, after the resume,
    again AFTER it: the second recovery file has the other pickle flavour than the first"""
    n = rng.randint(4, 7)
    i1 = rng.randrange(1, n - 2)
    ic = rng.randrange(i1 + 1, n - 1) if rng.random() < 0.7 else i1      # the closure node (may be the first failing one)
    i2 = rng.randrange(ic + 1, n)
    kids = []
    for i in range(n):
        ins = [["u", i - 1]] if i else []
        if i >= 2 and rng.random() < 0.4:
            ins.append(["u", rng.randrange(i - 1)])
        ins.append(["c", _neg(rng) if i in (i1, i2) else rng.randint(0, 30)])
        if len(ins) < 3 and rng.random() < 0.3:
            ins.append(["c", rng.randint(0, 30)])
        kids.append(["L", (CLO if i == ic else 0) + rng.randint(0, 99), ins])
    if rng.random() < 0.4:      # wrap the tail into a macro
        cutat = rng.randrange(1, n - 1)
        tail = kids[cutat:]
        for j, k in enumerate(tail):
            k[2] = [(["p", 0] if x[1] == cutat - 1 else ["c", rng.randint(0, 30)]) if x[0] == "u" and x[1] < cutat
                    else (["u", x[1] - cutat] if x[0] == "u" else x) for x in k[2]]
        if sum(1 for k in tail for x in k[2] if x == ["p", 0]) == 1:
            kids = kids[:cutat] + [["M", len(tail) - 1, [["u", cutat - 1]], tail]]
        else:
            return gen_two_failures(rng)
    c = {"kind": "fail", "tree": ["M", 0, [], kids]}
    r = rng.random()
    if r < 0.25:
        c["tree"] = with_loc(c["tree"], rng, 0.2)
    if r < 0.4:
        c["prior"] = True
    return c


def _neg(rng):
    """the cause of a failure: -6 = KeyboardInterrupt inside the function, -7/-8/-9 = exceptions of particular classes
    (ReadinessError, IndexError, KeyError subclasses), anything else negative = the harness's own exception"""
    return rng.choice([-1, -2, -3, -4, -5, -6, -6, -6, -6, -7, -8, -9])


def with_bad(tree, paths, rng):
    t = json.loads(json.dumps(tree))
    for p in paths:
        s = at_spec(t, p)
        js = [j for j, inp in enumerate(s[2]) if inp[0] == "c"]
        s[2][rng.choice(js)] = ["c", _neg(rng)]
    return t


def cases_of(rng, tree, rich):
    out = []
    lps = leaf_paths(tree)
    allp = [list(p) for p, s in walk(tree)]
    for p in lps:
        out.append({"kind": "fail", "tree": with_bad(tree, [p], rng)})
    for _ in range(2 if rich else 1):
        if len(lps) >= 2:
            out.append({"kind": "fail", "tree": with_bad(tree, rng.sample(lps, min(len(lps), rng.choice([2, 2, 3]))), rng)})
    if len(lps) >= 2:       # the same with closure-valued nodes: recovery files of both pickle flavours in one directory
        for _ in range(3 if rich else 2):
            out.append({"kind": "fail", "tree": with_bad(with_clo(tree, rng, 0.4), rng.sample(lps, min(len(lps), rng.choice([2, 3]))), rng)})
        out.append({"kind": "ckpt", "tree": with_clo(tree, rng, 0.4), "cut": rng.choice(allp), "proto": "all"})
    # two generations of the same label in one directory: the second has a node class only cloudpickle can store
    for _ in range(3 if rich else 2):
        t2 = with_loc(tree, rng, 0.3) if rng.random() < 0.8 else tree
        out.append({"kind": "fail", "tree": with_bad(t2, rng.sample(lps, min(len(lps), rng.choice([1, 1, 2]))), rng), "prior": True})
    for _ in range(3 if rich else 2):
        t2 = with_loc(tree, rng, 0.3) if rng.random() < 0.8 else with_clo(tree, rng, 0.4)
        out.append({"kind": "ckpt", "tree": t2, "cut": rng.choice(allp), "proto": "all", "prior": True})
    for p in allp:
        out.append({"kind": "ckpt", "tree": tree, "cut": p, "proto": "all"})
    for p in rng.sample(allp, min(len(allp), 3 if rich else 2)):
        out.append({"kind": "ckpt", "tree": tree, "cut": p, "proto": rng.choice(["stated", "stated", "root"])})
    for _ in range(3 if rich else 2):
        bad = rng.sample(lps, min(len(lps), rng.choice([1, 1, 2])))
        out.append({"kind": "ckpt", "tree": with_bad(tree, bad, rng), "cut": rng.choice(allp + [list(b) for b in bad]),
                    "proto": rng.choice(["all", "all", "all", "stated", "root"])})
    return out


def generate(ctx):
    rng = ctx.rng
    cases, seen = [], set()
    for _ in range(ctx.n(48, 500)):
        tree = gen_tree(rng)
        for c in cases_of(rng, tree, not ctx.quick):
            k = json.dumps(c, sort_keys=True)
            if k not in seen:
                seen.add(k)
                cases.append(c)
    for _ in range(ctx.n(50, 600)):
        c = gen_two_failures(rng)
        k = json.dumps(c, sort_keys=True)
        if k not in seen:
            seen.add(k)
            cases.append(c)
    return cases


def corpus(ctx):
    out = []
    for p in sorted((lib.VERIF / "corpus" / PROP).glob("*.json")):
        out.extend(json.loads(p.read_text()))
    return out


def nontrivial(case, o):
    if not isinstance(o, dict) or "rounds" not in o or not o["rounds"]:
        return False
    if case["kind"] == "fail":
        first = o["rounds"][0]
        return any(ok for t, ok in first["calls"]) and len(o["rounds"]) >= 2 and bool(o["rounds"][-1]["calls"])
    return bool(o.get("before")) and any(r["calls"] for r in o.get("rounds", []))


def key(case):
    return case


def shrink_candidates(case):
    tree = case["tree"]
    kids = tree[3]
    # drop the last top-level child when nothing refers to it
    if len(kids) > 1:
        last = len(kids) - 1
        if not any(inp[0] == "u" and inp[1] == last for k in kids for inp in k[2]):
            t2 = ["M", 0, [], kids[:-1]]
            c2 = dict(case, tree=t2)
            if case["kind"] == "ckpt" and case["cut"] and case["cut"][0] == last:
                c2["cut"] = []
            if case["kind"] == "fail" and nbad(t2) == 0:
                return
            yield c2
    # turn negative constants positive one at a time (keeps at least one for fail cases)
    bads = [(p, j) for p, s in walk(tree) if s[0] == "L" for j, inp in enumerate(s[2]) if inp[0] == "c" and inp[1] < 0]
    if len(bads) > (1 if case["kind"] == "fail" else 0):
        for p, j in bads:
            t2 = json.loads(json.dumps(tree))
            s = at_spec(t2, p)
            s[2][j] = ["c", -s[2][j][1]]
            yield dict(case, tree=t2)


def distribution(results):
    d = {"fail": 0, "ckpt": 0, "two_generations": 0, "not_import_ready": 0, "interrupts": 0, "flavour_sequences": {}, "proto": {}, "depth_of_cut_or_failure": {}, "rounds": {}, "with_macros": 0, "nocut": 0,
         "nodes": {}}
    for c, enc, v, o in results:
        d[c["kind"]] += 1
        d["two_generations"] += bool(c.get("prior"))
        d["not_import_ready"] += any(s[0] == "L" and s[1] >= LOC for p, s in walk(c["tree"]))
        d["interrupts"] += any(s[0] == "L" and any(i == ["c", -6] for i in s[2]) for p, s in walk(c["tree"]))
        n = sum(1 for _ in walk(c["tree"])) - 1
        d["nodes"][n] = d["nodes"].get(n, 0) + 1
        d["with_macros"] += any(s[0] == "M" for p, s in walk(c["tree"]) if p)
        if c["kind"] == "ckpt":
            d["proto"][c["proto"]] = d["proto"].get(c["proto"], 0) + 1
            k = len(c["cut"])
            d["depth_of_cut_or_failure"][k] = d["depth_of_cut_or_failure"].get(k, 0) + 1
            if isinstance(o, dict) and not o.get("cut"):
                d["nocut"] += 1
        else:
            for p, s in walk(c["tree"]):
                if s[0] == "L" and any(i[0] == "c" and i[1] < 0 for i in s[2]):
                    d["depth_of_cut_or_failure"][len(p)] = d["depth_of_cut_or_failure"].get(len(p), 0) + 1
        if isinstance(o, dict) and "rounds" in o:
            k = len(o["rounds"])
            d["rounds"][k] = d["rounds"].get(k, 0) + 1
            fl = ">".join(r["files"][0].rsplit(".", 1)[1] if len(r["files"]) == 1 else str(len(r["files"]))
                          for r in o["rounds"] if r["verdict"] != "ok")
            if fl:
                d["flavour_sequences"][fl] = d["flavour_sequences"].get(fl, 0) + 1
    return d
