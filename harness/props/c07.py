"""C07 -- saving and loading (pickling and unpickling) returns an observationally identical graph.

Case families
  rt    : a graph (workflow of function nodes, nested macros, a for-loop, a transformer; or a
          macro / function node on its own; or one child of a workflow) is built with the real
          library, brought into an execution state (never run / fully run / failed midway /
          flags of a checkpoint image taken mid-run), optionally edited (direct edits below a
          macro's value links), snapshotted, sent 1-3 times through pickle / cloudpickle /
          node.save()+load in a fresh directory, snapshotted again, and finally the original
          and the reloaded graph are both re-run.  The BEFORE snapshot is handed to the Coq
          model (Serial.trips) as its input state; the model's AFTER snapshot (both-sided
          ordered connection lists, values, flags, links, starting nodes, executor
          instructions, who owns the channels) must equal the implementation's.  For flat
          hand-wired workflows of function nodes the model also predicts the re-run
          (Serial.exec: the plain FIFO queue of Composite._run_while_children_or_signals_exist).
  build : a flat workflow built by a random op list (add / connect / disconnect data and signals,
          set values, starting nodes); compared with Serial.build -- ties the op semantics of
          the reachability theorems ("every state built by ops") to the real channel methods.

The oracle is the property itself, on the two implementation snapshots and the two re-runs.
"""
from __future__ import annotations

import json
import os
import pickle
import shutil
import signal as _signal
import tempfile
from concurrent.futures import ThreadPoolExecutor

import cloudpickle

from harness import lib, nodes
from harness.lib import cb, cl, cn, cs, cz

from pyiron_workflow.nodes.macro import as_macro_node

PROP = "C07"
IMPORTS = "Base Serial"
SHARD = 60
FUEL = 400
RULE = ("rt: workflows of 2-7 children drawn from {function nodes of arity 0-3, 7 macro classes (chain, fork with UI "
        "node, multi-priority inputs, hand-wired flow, nested, unused input, nested hand-wired), for-loop, "
        "inputs-to-list transformer}, inputs with 1-3 connections in random priority, automated or hand-wired "
        "(>>, accumulate, starting nodes; forward or cyclic) x {never run, fully run, failed midway, mid-run flags} "
        "x {pickle, cloudpickle, file} x 1-3 trips x {root, one child alone}; build: 4-14 random ops on a flat "
        "workflow. Non-trivial: the serialised node has >=2 children and >=1 sibling connection, or is a child "
        "serialised alone; distinct by content.")
TRUSTED = ["pickle / cloudpickle as the identity on state dictionaries; class lookup by import path",
           "the BEFORE snapshot read off the real objects is the model's input state (Serial.wfb is evaluated on it)"]
ASSUMPTIONS = ["connections only between siblings (cross-scope connections are not generated; Serial.wfb would flag them)",
               "no type hints on the channels of the generated graphs (hint checks at re-connection are C04/C12)",
               "re-run prediction by the model only for flat hand-wired workflows of function nodes; for nested / "
               "automated graphs the re-run clause is checked by the oracle on the implementation only"]


# =========================================================================== macro classes
@as_macro_node("out")
def MChain(self, x):
    self.p = nodes.Lin1(tag=101, k=1, a=x)
    self.q = nodes.Lin1(tag=102, k=2, a=self.p)
    return self.q


@as_macro_node("out", "o2")
def MFork(self, x, z=2):
    self.p = nodes.Lin2(tag=111, k=1, a=x, b=z)
    self.q = nodes.Lin2(tag=112, k=2, a=x, b=self.p)
    self.r = nodes.Lin2(tag=113, k=3, a=self.p, b=self.q)
    return self.r, self.q


@as_macro_node("out")
def MMulti(self, x, y=4):
    # inputs with two and three connections in a priority that is not creation order
    self.p = nodes.Lin1(tag=121, k=1, a=x)
    self.q = nodes.Lin1(tag=122, k=2, a=y)
    self.s = nodes.Lin0(tag=123, k=3)
    self.r = nodes.Lin2(tag=124, k=4, a=self.p, b=self.q)
    self.r.inputs.a.connect(self.q.outputs.y)
    self.r.inputs.b.connect(self.s.outputs.y)
    self.r.inputs.b.connect(self.p.outputs.y)
    self.t = nodes.Lin1(tag=125, k=5, a=self.r)
    self.t.inputs.a.connect(self.s.outputs.y)
    self.t.inputs.a.connect(self.r.outputs.y)
    return self.t


@as_macro_node("out")
def MHand(self, x):
    # hand-wired execution flow; p.ran lists [q.run, r.run] which is NOT the reverse child order
    self.p = nodes.Lin1(tag=131, k=1, a=x)
    self.q = nodes.Lin1(tag=132, k=2, a=self.p)
    self.r = nodes.Lin1(tag=133, k=3, a=self.p)
    self.s = nodes.Lin2(tag=134, k=4, a=self.q, b=self.r)
    self.p >> self.r
    self.p >> self.q
    self.s.signals.input.accumulate_and_run << (self.q, self.r)
    self.starting_nodes = [self.p]
    return self.s


@as_macro_node("out")
def MHandC(self, x):
    # hand-wired, fan-out already in the order a restore produces (reverse child order)
    self.p = nodes.Lin1(tag=141, k=1, a=x)
    self.q = nodes.Lin1(tag=142, k=2, a=self.p)
    self.r = nodes.Lin1(tag=143, k=3, a=self.p)
    self.s = nodes.Lin2(tag=144, k=4, a=self.q, b=self.r)
    self.p >> self.q
    self.p >> self.r
    self.s.signals.input.accumulate_and_run << (self.q, self.r)
    self.starting_nodes = [self.p]
    return self.s


@as_macro_node("out")
def MOuter(self, x):
    self.inner = MChain(x=x)
    self.s = nodes.Lin1(tag=151, k=3, a=self.inner)
    return self.s


@as_macro_node("out")
def MUnused(self, x, unused=3):
    self.p = nodes.Lin1(tag=161, k=1, a=x)
    return self.p


@as_macro_node("out")
def MDeep(self, x, w=1):
    self.f = MFork(x=x, z=w)
    self.h = MHandC(x=self.f.outputs.out)
    self.s = nodes.Lin2(tag=171, k=3, a=self.h, b=self.f.outputs.o2)
    return self.s


MACROS = {"MChain": MChain, "MFork": MFork, "MMulti": MMulti, "MHand": MHand, "MHandC": MHandC, "MOuter": MOuter,
          "MUnused": MUnused, "MDeep": MDeep}
MACRO_INS = {"MChain": ["x"], "MFork": ["x", "z"], "MMulti": ["x", "y"], "MHand": ["x"], "MHandC": ["x"],
             "MOuter": ["x"], "MUnused": ["x", "unused"], "MDeep": ["x", "w"]}
MACRO_OUT = {"MChain": "out", "MFork": "out", "MMulti": "out", "MHand": "out", "MHandC": "out", "MOuter": "out",
             "MUnused": "out", "MDeep": "out"}


_POOLS: dict = {}


def pool_factory(name="shared", workers=1):
    """an executor FACTORY FUNCTION (module level, pickled by reference): the documented way of letting
    several nodes share one executor through instructions `(callable, args, kwargs)`"""
    if name not in _POOLS:
        _POOLS[name] = ThreadPoolExecutor(max_workers=workers)
    return _POOLS[name]


def _set_exec(node, kind):
    if kind == "instr":
        node.executor = (ThreadPoolExecutor, (), {})
    elif kind == "factory":
        node.executor = (pool_factory, ("shared",), {})
    elif kind == "factory_kw":
        node.executor = (pool_factory, (), {"name": "other", "workers": 2})
    elif kind == "live":
        node.executor = ThreadPoolExecutor(max_workers=1)


def _local_lin():
    from pyiron_workflow.nodes.function import as_function_node

    @as_function_node("y")
    def LocalLin(tag, k, a):
        return nodes.lin(tag, k, [a])
    return LocalLin


# =========================================================================== values
def enc(v):
    from pyiron_workflow.channels import NOT_DATA
    if v is NOT_DATA:
        return ["nd"]
    return ["d", encv(v)]


def encv(v):
    if isinstance(v, bool):
        return ["b", int(v)]
    if isinstance(v, int):
        return int(v)
    if v is None:
        return ["none"]
    if isinstance(v, str):
        return ["s", "".join(c if 32 <= ord(c) < 127 else "?" for c in v)]
    if isinstance(v, (list, tuple)):
        return ["l"] + [encv(x) for x in v]
    if isinstance(v, dict):
        return ["m"] + [[encv(k), encv(x)] for k, x in sorted(v.items(), key=lambda kv: repr(kv[0]))]
    if isinstance(v, type):
        return ["t", v.__name__]
    return ["o", type(v).__name__]


# =========================================================================== building graphs
def _mk_node(nd, i):
    t = nd["t"]
    lab = nd["l"]
    if t == "lin":
        kw = {"tag": i, "k": nd["k"]}
        for j, inp in enumerate(nd["ins"]):
            if inp["init"] is not None:
                kw[nodes.ARG[j]] = inp["init"]
        return nodes.LIN[len(nd["ins"])](label=lab, **kw)
    if t == "local":
        kw = {"tag": i, "k": nd["k"]}
        if nd["ins"][0]["init"] is not None:
            kw["a"] = nd["ins"][0]["init"]
        return _local_lin()(label=lab, **kw)
    if t in MACROS:
        kw = {}
        for name, inp in zip(MACRO_INS[t], nd["ins"]):
            if inp["init"] is not None:
                kw[name] = inp["init"]
        return MACROS[t](label=lab, **kw)
    if t == "for":
        from pyiron_workflow.nodes.for_loop import for_node
        kw = {"tag": i, "k": nd["k"]}
        if nd["ins"][0]["init"] is not None:
            kw["a"] = nd["ins"][0]["init"]
        if nd["ins"][1]["init"] is not None:
            kw["b"] = nd["ins"][1]["init"]
        return for_node(nodes.Lin2, iter_on=("a",), output_as_dataframe=False, label=lab, **kw)
    if t == "tolist":
        from pyiron_workflow.nodes.transform import inputs_to_list
        args = [inp["init"] for inp in nd["ins"] if inp["init"] is not None]
        n = inputs_to_list(len(nd["ins"]), label=lab)
        for j, inp in enumerate(nd["ins"]):
            if inp["init"] is not None:
                n.inputs[f"item_{j}"].value = inp["init"]
        return n
    raise ValueError(t)


def in_names(nd):
    t = nd["t"]
    if t in ("lin", "local"):
        return nodes.ARG[:len(nd["ins"])]
    if t in MACROS:
        return MACRO_INS[t][:len(nd["ins"])]
    if t == "for":
        return ["a", "b"]
    if t == "tolist":
        return [f"item_{j}" for j in range(len(nd["ins"]))]
    raise ValueError(t)


def out_name(nd):
    t = nd["t"]
    if t in ("lin", "local"):
        return "y"
    if t in MACROS:
        return MACRO_OUT[t]
    if t == "for":
        return "y"
    return "list"


def build_graph(g):
    """-> (root, children list)"""
    from pyiron_workflow import Workflow
    if g["root"] != "wf":
        nd = g["nodes"][0]
        n = _mk_node(nd, 0)
        return n, [n]
    wf = Workflow(g.get("label", "wf"), automate_execution=bool(g["auto"]))
    ch = []
    for i, nd in enumerate(g["nodes"]):
        n = _mk_node(nd, i)
        wf.add_child(n)
        ch.append(n)
    for i, nd in enumerate(g["nodes"]):
        for name, inp in zip(in_names(nd), nd["ins"]):
            for u in inp["conns"]:          # connected in this order: the LAST one gets top priority
                ch[i].inputs[name].connect(ch[u].outputs[out_name(g["nodes"][u])])
    for (s, d, mode) in g.get("sig", []):
        tgt = ch[d].signals.input.run if mode == "run" else ch[d].signals.input.accumulate_and_run
        tgt.connect(ch[s].signals.output.ran)
    if not g["auto"]:
        wf.starting_nodes = [ch[i] for i in g.get("start", [])]
    for i, nd in enumerate(g["nodes"]):
        _set_exec(ch[i], nd.get("exec"))
    return wf, ch


def at_path(root, path):
    n = root
    for lab in path:
        n = n.children[lab]
    return n


def all_nodes(n):
    from pyiron_workflow.nodes.composite import Composite
    yield n
    if isinstance(n, Composite):
        for c in n.children.values():
            yield from all_nodes(c)


# =========================================================================== snapshots
def _cref(owner_node, c):
    o = c.owner
    if o.parent is owner_node.parent or o is owner_node:
        return [o.label, c.label]
    return ["^" + o.full_label, c.label]


def _recv(n, ch):
    """value receiver of a channel of n, by channel identity: one of the parent's outputs, or an input of a child"""
    from pyiron_workflow.nodes.composite import Composite
    r = ch.value_receiver
    if r is None:
        return []
    if n.parent is not None and any(r is c for c in n.parent.outputs):
        return ["p", r.label]
    if isinstance(n, Composite):
        for k in n.children.values():
            if any(r is c for c in k.inputs):
                return ["c", k.label, r.label]
    return ["c", r.owner.label, r.label]      # dangling: the owner is no (longer a) child


def _exe(n):
    from concurrent.futures import Executor
    e = n.executor
    if e is None:
        return []
    if isinstance(e, Executor):
        return ["live"]
    return ["instr", getattr(e[0], "__name__", "?"), encv(list(e[1])), encv(dict(e[2]))]


def _received(c):
    """what an all-of trigger has heard so far, canonically: the library keeps scoped-label strings; anything
    else (e.g. the emitting channel objects themselves) is rendered by type and scoped label, never compared raw"""
    out = []
    for x in getattr(c, "received_signals", []) or []:
        if isinstance(x, str):
            out.append(x)
        else:
            owner = getattr(x, "owner", None)
            out.append(f"obj:{type(x).__name__}:{getattr(owner, 'label', '?')}__{getattr(x, 'label', '?')}")
    return sorted(out)


def outside_nodes(node):
    """labels of the node objects that travel along when `node` is pickled although they are not part of its own
    sub-tree (a node serialised on its own must not drag its parent or siblings with it)"""
    import io
    from pyiron_workflow.node import Node
    own = {id(x) for x in all_nodes(node)}
    found = {}

    class _Spy(cloudpickle.CloudPickler):
        def persistent_id(self, obj):
            if isinstance(obj, Node) and id(obj) not in own:
                found[id(obj)] = obj.label
            return None
    try:
        _Spy(io.BytesIO()).dump(node)
    except _Timeout:
        raise
    except Exception as e:
        return ["?" + _exc(e)]
    return sorted(found.values())


def snap(n, listed_by=None):
    from pyiron_workflow import Workflow
    from pyiron_workflow.nodes.composite import Composite
    from pyiron_workflow.nodes.macro import Macro
    from pyiron_workflow.nodes.for_loop import For
    iswf = isinstance(n, Workflow)
    comp = isinstance(n, Composite)
    kind = "wf" if iswf else "linked" if isinstance(n, (Macro, For)) else "comp" if comp else "leaf"
    own_in = [] if iswf else list(n.inputs)
    own_out = [] if iswf else list(n.outputs)
    sins, souts = list(n.signals.input), list(n.signals.output)
    own = all(c.owner is n for c in own_in + own_out + sins + souts)
    if listed_by is None:
        pflag = 0 if n.parent is None else 1
    else:
        pflag = 1 if n.parent is listed_by else 0
    det = n._detached_parent_path
    return [
        n.label, kind, type(n).__name__,
        [int(bool(n.failed)), int(bool(n.running))],
        _exe(n),
        [pflag, [] if det is None else [det], int(own)],
        [[c.label, enc(c.value), [_cref(n, o) for o in c.connections], _recv(n, c)] for c in own_in],
        [[c.label, enc(c.value), [_cref(n, o) for o in c.connections], _recv(n, c)] for c in own_out],
        [[c.label, [_cref(n, o) for o in c.connections], _received(c)] for c in sins],
        [[c.label, [_cref(n, o) for o in c.connections]] for c in souts],
        [snap(c, listed_by=n) for c in n.children.values()] if comp else [],
        [s.label for s in n.starting_nodes] if comp else [],
        list(n.provenance_by_execution) if comp else [],
    ]


# indices into a snapshot
L, KIND, CLS, FLAGS, EXE, PAR, INS, OUTS, SIN, SOUT, KIDS, START, PROV = range(13)


# =========================================================================== the scenario
class _Timeout(BaseException):
    pass


def _alarm(signum, frame):
    raise _Timeout()


def _exc(e):
    return type(e).__name__


def _settle(root):
    """a run that raised from a starting node returns while children submitted to executors may still
    be out: wait for them (and for their done-callbacks) so that the snapshot is of a quiescent graph"""
    import time
    used = [n for n in all_nodes(root) if n.future is not None]
    if not used:
        return
    for n in used:
        try:
            n.future.result(timeout=5)
        except BaseException as e:  # noqa
            if isinstance(e, _Timeout):
                raise
    t0 = time.time()
    while any(n.running for n in used) and time.time() - t0 < 3:
        time.sleep(0.005)
    time.sleep(0.03)


def prepare_state(case):
    """build the graph and bring it into the requested execution state; -> (root, target node)"""
    nodes.reset()
    g = case["graph"]
    root, ch = build_graph(g)
    st = case["state"]
    if st in ("run", "fail"):
        if st == "fail":
            for t in case.get("failtags", []):
                nodes.FAIL.add(t)
        try:
            root.run()
        except _Timeout:
            raise
        except Exception:
            pass
        _settle(root)
        nodes.FAIL.clear()
    for op in case.get("post", []):
        n = at_path(root, op[1])
        if op[0] == "setin":
            n.inputs[op[2]]._value = op[3]          # a direct edit below the value links (no forwarding)
        elif op[0] == "setin_pub":
            n.inputs[op[2]].value = op[3]
        elif op[0] == "setout":
            n.outputs[op[2]]._value = op[3]
        elif op[0] == "running":
            n.running = bool(op[2])
        elif op[0] == "failed":
            n.failed = bool(op[2])
        elif op[0] == "recv":
            n.signals.input.accumulate_and_run.received_signals.update(op[2])
        elif op[0] == "exec":
            _set_exec(n, op[2])
    return root, at_path(root, case.get("target", []))


def _fresh(target):
    cls = type(target)
    from pyiron_workflow import Workflow
    if isinstance(target, Workflow):
        return Workflow(target.label)          # autoloads from the cwd
    return cls(label=target.label, autoload="pickle")


def one_trip(node, backend, workdir):
    if backend == "pickle":
        return pickle.loads(pickle.dumps(node))
    if backend == "cloudpickle":
        return cloudpickle.loads(cloudpickle.dumps(node))
    d = tempfile.mkdtemp(prefix="t", dir=workdir)
    old = os.getcwd()
    os.chdir(d)
    try:
        node.save()
        return _fresh(node)
    finally:
        os.chdir(old)


def _clear_for_rerun(root):
    for n in all_nodes(root):
        n.failed = False
        n.running = False
        n.use_cache = False
        n.executor = None
        n.recovery = None


def _prov_tree(root):
    from pyiron_workflow.nodes.composite import Composite
    out = []
    for n in all_nodes(root):
        if isinstance(n, Composite):
            out.append([n.label, list(n.provenance_by_execution)])
    return out


def rerun(root):
    from pyiron_workflow import Workflow
    nodes.reset()
    _clear_for_rerun(root)
    try:
        root.run()
        res = ["ok"]
    except _Timeout:
        raise
    except Exception as e:
        res = ["err", _exc(e)]
    if isinstance(root, Workflow):
        outs = [[c.label, k.label, enc(k.value)] for c in root.children.values() for k in c.outputs]
    else:
        outs = [[root.label, k.label, enc(k.value)] for k in root.outputs]
    return [res, outs, _prov_tree(root), [[t, [encv(a) for a in args]] for t, args in nodes.CALLS]]


def run_rt(case):
    workdir = tempfile.mkdtemp(prefix="c07_")
    old_handler = _signal.signal(_signal.SIGALRM, _alarm)
    _signal.alarm(20)
    cwd = os.getcwd()
    os.chdir(workdir)
    try:
        root, target = prepare_state(case)
        before = snap(target)
        ppath = [] if target.parent is None else [target.parent.lexical_path]
        cur = target
        after = None
        extras = []
        try:
            for _ in range(case["trips"]):
                cur = one_trip(cur, case["backend"], workdir)
            after = snap(cur)
            if case["backend"] != "file":       # (a file load drags the throw-away instance along: known finding)
                extras = outside_nodes(cur)
        except _Timeout:
            raise
        except Exception as e:
            after = ["ERR", _exc(e)]
        rr = []
        if case.get("rerun") and not case.get("target") and after[0] != "ERR":
            rr = [rerun(target), rerun(cur)]
        return [before, after, rr, ppath, extras]
    except _Timeout:
        return "timeout"
    finally:
        _signal.alarm(0)
        _signal.signal(_signal.SIGALRM, old_handler)
        os.chdir(cwd)
        for n in (locals().get("root"), locals().get("cur")):
            try:
                if n is not None:
                    n.executor_shutdown(wait=False)
            except Exception:
                pass
        shutil.rmtree(workdir, ignore_errors=True)


# =========================================================================== build family
ROOT_SIN = ["run", "accumulate_and_run"]
ROOT_SOUT = ["ran", "failed"]


def run_build(case):
    from pyiron_workflow import Workflow
    nodes.reset()
    wf = Workflow("wf", automate_execution=False)
    for op in case["ops"]:
        try:
            k = op[0]
            if k == "add":
                kw = {"tag": op[3], "k": op[4]}
                wf.add_child(nodes.LIN[op[2]](label=op[1], **kw))
            elif k == "cd":
                wf.children[op[1]].inputs[op[2]].connect(wf.children[op[3]].outputs[op[4]])
            elif k == "dd":
                wf.children[op[1]].inputs[op[2]].disconnect(wf.children[op[3]].outputs[op[4]])
            elif k == "cs":
                wf.children[op[1]].signals.input[op[2]].connect(wf.children[op[3]].signals.output[op[4]])
            elif k == "ds":
                wf.children[op[1]].signals.input[op[2]].disconnect(wf.children[op[3]].signals.output[op[4]])
            elif k == "setin":
                wf.children[op[1]].inputs[op[2]].value = op[3]
            elif k == "setout":
                wf.children[op[1]].outputs[op[2]].value = op[3]
            elif k == "flags":
                wf.children[op[1]].failed = bool(op[2])
                wf.children[op[1]].running = bool(op[3])
            elif k == "start":
                wf.starting_nodes = [wf.children[l] for l in op[1]]
        except Exception:
            pass
    return snap(wf)


def _path(p):
    return cl(cs(x) for x in p)


def _cref_coq(c):
    return f"({cs(c[0])}, {cs(c[1])})"


def build_term(case):
    ops = []
    for op in case["ops"]:
        k = op[0]
        if k == "add":
            ins = [("tag", op[3]), ("k", op[4])] + [(a, None) for a in nodes.ARG[:op[2]]]
            insc = cl(f"({cs(l)}, {slot_coq(['nd'] if v is None else ['d', v])})" for l, v in ins)
            ops.append(f"OAdd [] {cs(op[1])} KLeaf {cs('Lin%d' % op[2])} {insc} [({cs('y')}, NotData)] "
                       f"{cl(cs(x) for x in ROOT_SIN)} {cl(cs(x) for x in ROOT_SOUT)}")
        elif k in ("cd", "dd", "cs", "ds"):
            ops.append(f"{ {'cd': 'OConnD', 'dd': 'ODiscD', 'cs': 'OConnS', 'ds': 'ODiscS'}[k]} [] "
                       f"{_cref_coq(op[1:3])} {_cref_coq(op[3:5])}")
        elif k == "setin":
            ops.append(f"OSetIn [{cs(op[1])}] {cs(op[2])} {slot_coq(['d', op[3]])}")
        elif k == "setout":
            ops.append(f"OSetOut [{cs(op[1])}] {cs(op[2])} {slot_coq(['d', op[3]])}")
        elif k == "flags":
            ops.append(f"OFlags [{cs(op[1])}] {cb(op[2])} {cb(op[3])}")
        elif k == "start":
            ops.append(f"OStart [] {cl(cs(x) for x in op[1])}")
    root = (f"(root0 {cs('wf')} KWf {cs('Workflow')} [] [] {cl(cs(x) for x in ROOT_SIN)} "
            f"{cl(cs(x) for x in ROOT_SOUT)})")
    return f"obs_build {root} {cl(ops)}"


def gen_build(rng):
    labs = ["a", "b", "c", "d", "e"]
    ops = []
    have = []
    for _ in range(rng.randint(4, 16)):
        r = rng.random()
        if r < 0.3 or len(have) < 2:
            lab = rng.choice(labs)
            ar = rng.choice([0, 1, 1, 2, 3])
            ops.append(["add", lab, ar, rng.randint(0, 9), rng.randint(1, 30)])
            if lab not in [h[0] for h in have]:
                have.append((lab, ar))
            continue
        a, b = rng.choice(have), rng.choice(have)
        ghost = rng.random() < 0.06
        if r < 0.55:
            ch = rng.choice(nodes.ARG[:max(a[1], 1)] + (["zz"] if ghost else []))
            ops.append([rng.choice(["cd", "cd", "cd", "dd"]), a[0], ch, "q" if ghost and rng.random() < 0.5 else b[0], "y"])
        elif r < 0.8:
            ops.append([rng.choice(["cs", "cs", "cs", "ds"]), a[0], rng.choice(ROOT_SIN), b[0],
                        rng.choice(["ran", "ran", "failed"])])
        elif r < 0.88:
            ops.append(["setin", a[0], rng.choice(["k"] + nodes.ARG[:a[1]]), rng.randint(0, 50)])
        elif r < 0.92:
            ops.append(["setout", a[0], "y", rng.randint(0, 50)])
        elif r < 0.95:
            ops.append(["flags", a[0], rng.random() < 0.5, rng.random() < 0.3])
        else:
            ops.append(["start", rng.sample([h[0] for h in have], rng.randint(1, min(2, len(have))))
                        + (["zz"] if ghost else [])])
    return {"fam": "build", "ops": ops}


# =========================================================================== snapshot -> Coq
def obs_coq(x):
    return lib.cobs(x)


def slot_coq(e):
    return "NotData" if e[0] == "nd" else f"(Data {obs_coq(e[1])})"


def recv_coq(r):
    if not r:
        return "RNone"
    if r[0] == "p":
        return f"(RParent {cs(r[1])})"
    return f"(RChild {cs(r[1])} {cs(r[2])})"


def exe_coq(e):
    if not e:
        return "ENone"
    if e[0] == "live":
        return "ELive"
    return f"(EInstr {obs_coq(e)})"


KIND_COQ = {"leaf": "KLeaf", "wf": "KWf", "linked": "KLinked", "comp": "KComp"}


def node_coq(s):
    d = lambda c: f"(mkD {cs(c[0])} {slot_coq(c[1])} {cl(_cref_coq(x) for x in c[2])} {recv_coq(c[3])})"
    si = lambda c: f"(mkS {cs(c[0])} {cl(_cref_coq(x) for x in c[1])} {cl(cs(x) for x in c[2])})"
    so = lambda c: f"(mkS {cs(c[0])} {cl(_cref_coq(x) for x in c[1])} [])"
    return (f"(Node {cs(s[L])} {KIND_COQ[s[KIND]]} {cs(s[CLS])} {cb(s[FLAGS][0])} {cb(s[FLAGS][1])} {exe_coq(s[EXE])}\n"
            f" {cl(d(c) for c in s[INS])} {cl(d(c) for c in s[OUTS])} {cl(si(c) for c in s[SIN])} {cl(so(c) for c in s[SOUT])}\n"
            f" {cl(node_coq(k) for k in s[KIDS])} {cl(cs(x) for x in s[START])} {cl(cs(x) for x in s[PROV])})")


def ctx_coq(par, ppath):
    cp = f"(Some {cs(ppath[0])})" if ppath else "None"
    cd = f"(Some {cs(par[1][0])})" if par[1] else "None"
    return f"(mkC {cp} {cd} {cb(par[2])})"


# =========================================================================== harness interface
_CACHE: dict = {}


def _ck(case):
    return json.dumps(case, sort_keys=True)


def run_impl(case):
    case = _tolist(case)
    obs = run_build(case) if case["fam"] == "build" else run_rt(case)
    if case["fam"] == "rt":
        # the model's input is the BEFORE snapshot of exactly this run (set iteration orders inside the
        # library make input-side signal lists vary between runs), so the term is fixed here
        _CACHE[_ck(case)] = _rt_term(case, obs)
    return obs


def _tolist(x):
    if isinstance(x, dict):
        return {k: _tolist(v) for k, v in x.items()}
    return [_tolist(e) for e in x] if isinstance(x, (list, tuple)) else x


def _ascii(x):
    if isinstance(x, str):
        return all(32 <= ord(c) < 127 for c in x)
    if isinstance(x, list):
        return all(_ascii(e) for e in x)
    return True


def flat_modelled(case, before):
    """re-run predicted by the model: root workflow, hand-wired, every child a Lin function node"""
    return (bool(case.get("rerun")) and not case.get("target") and before[KIND] == "wf"
            and not case["graph"].get("auto") and all(k[KIND] == "leaf" and k[CLS] in ("Lin0", "Lin1", "Lin2", "Lin3", "Lin4")
                                                      for k in before[KIDS]))


def _rt_term(case, obs):
    if obs == "timeout" or not _ascii(obs):
        return None
    before, after, rr, ppath = obs[:4]
    bk = "BFile" if case["backend"] == "file" else "BPickle"
    rerun = flat_modelled(case, before) and bool(rr)
    return (f"obs_case {cn(case['trips'])} {bk} {cb(rerun)} {cn(FUEL)}\n ({ctx_coq(before[PAR], ppath)},\n {node_coq(before)})")


def model_term(case):
    case = _tolist(case)
    if case["fam"] == "build":
        return build_term(case)
    k = _ck(case)
    if k not in _CACHE:
        run_impl(case)
    return _CACHE[k]


def _rrview(r):
    return r if r[0] == ["ok"] else [r[0]]


def model_view(case, obs):
    case = _tolist(case)
    if case["fam"] == "build":
        return [1, obs]
    if obs == "timeout":
        return obs
    before, after, rr, ppath = obs[:4]
    rerun = flat_modelled(case, before) and bool(rr)
    return [1, after, [_rrview(rr[0]), _rrview(rr[1])] if rerun else []]


# =========================================================================== the oracle (the property itself)
def _nodes_of(s, path=()):
    yield path, s
    for k in s[KIDS]:
        yield from _nodes_of(k, path + (k[L],))


def compare(b, a, root, where, out):
    """the property's notion of 'observationally identical' between a BEFORE and an AFTER snapshot"""
    w = "/".join(where) or "."
    if (b[L], b[KIND], b[CLS]) != (a[L], a[KIND], a[CLS]):
        out.append(("structure", f"{w}: label/class {b[L]},{b[CLS]} became {a[L]},{a[CLS]}"))
        return
    if b[FLAGS] != a[FLAGS]:
        out.append(("flags", f"{w}: failed/running {b[FLAGS]} became {a[FLAGS]}"))
    if (b[EXE] if b[EXE] != ["live"] else []) != a[EXE]:
        out.append(("executor", f"{w}: executor instructions {b[EXE]} became {a[EXE]}"))
    if root:
        if a[PAR][0] != 0:
            out.append(("parent", f"{w}: a node serialised on its own came back with a parent"))
    elif a[PAR][0] != 1:
        out.append(("parent", f"{w}: child is not parented by the composite that lists it"))
    if a[PAR][2] != 1:
        out.append(("owner", f"{w}: the node's channels are owned by another object"))
    for idx, what in ((INS, "input"), (OUTS, "output")):
        if [c[0] for c in b[idx]] != [c[0] for c in a[idx]]:
            out.append(("structure", f"{w}: {what} channels {[c[0] for c in b[idx]]} became {[c[0] for c in a[idx]]}"))
            continue
        for cb_, ca in zip(b[idx], a[idx]):
            if cb_[1] != ca[1]:
                out.append(("value", f"{w}.{cb_[0]}: {what} value {cb_[1]} became {ca[1]}"))
            if root:
                if ca[2]:
                    out.append(("outside-connection", f"{w}.{cb_[0]}: came back connected to {ca[2]}"))
            elif idx == INS:
                if cb_[2] != ca[2]:
                    sig = "input-order" if sorted(cb_[2]) == sorted(ca[2]) else "data-connection"
                    out.append((sig, f"{w}.{cb_[0]}: consults {cb_[2]} before, {ca[2]} after"))
            elif sorted(cb_[2]) != sorted(ca[2]):
                out.append(("data-connection", f"{w}.{cb_[0]}: feeds {cb_[2]} before, {ca[2]} after"))
            rb = cb_[3]
            if root and idx == OUTS and rb and rb[0] == "p":
                rb = []                      # the link into the parent it no longer has
            if rb != ca[3]:
                out.append(("link", f"{w}.{cb_[0]}: value link {cb_[3]} became {ca[3]}"))
    for idx, what in ((SIN, "input signal"), (SOUT, "output signal")):
        if [c[0] for c in b[idx]] != [c[0] for c in a[idx]]:
            out.append(("structure", f"{w}: {what} channels differ"))
            continue
        for cb_, ca in zip(b[idx], a[idx]):
            if root:
                if ca[1]:
                    out.append(("outside-connection", f"{w}.{cb_[0]}: came back connected to {ca[1]}"))
            elif sorted(cb_[1]) != sorted(ca[1]):
                out.append(("signal-connection", f"{w}.{cb_[0]}: {cb_[1]} before, {ca[1]} after"))
            if idx == SIN and cb_[2] != ca[2]:
                out.append(("received", f"{w}.{cb_[0]}: received signals {cb_[2]} became {ca[2]}"))
    if [k[L] for k in b[KIDS]] != [k[L] for k in a[KIDS]]:
        out.append(("structure", f"{w}: children {[k[L] for k in b[KIDS]]} became {[k[L] for k in a[KIDS]]}"))
    else:
        for kb, ka in zip(b[KIDS], a[KIDS]):
            compare(kb, ka, False, where + [kb[L]], out)
    if b[START] != a[START]:
        out.append(("starting", f"{w}: starting nodes {b[START]} became {a[START]}"))
    if b[PROV] != a[PROV]:
        out.append(("provenance", f"{w}: recorded provenance {b[PROV]} became {a[PROV]}"))


def failures(case, obs):
    if obs == "timeout":
        return [("timeout", "the scenario did not finish")]
    before, after, rr, ppath = obs[:4]
    out = []
    if after and after[0] == "ERR":
        return [("load-error", f"saving/loading raised {after[1]}")]
    compare(before, after, True, [], out)
    if len(obs) > 4 and obs[4]:
        out.append(("dragged-along", f"the node was pickled together with {len(obs[4])} node object(s) outside its own "
                                     f"sub-tree (parent / siblings): {obs[4][:6]}"))
    if rr:
        o, r = rr
        if o[0] != r[0]:
            out.append(("rerun-result", f"original re-run {o[0]}, reloaded re-run {r[0]}"))
        if o[1] != r[1]:
            d = [(x, y) for x, y in zip(o[1], r[1]) if x != y][:2]
            out.append(("rerun-output", f"outputs differ after re-running: {d}"))
        if o[2] != r[2]:
            d = [(x, y) for x, y in zip(o[2], r[2]) if x != y][:2]
            out.append(("rerun-order", f"execution order differs after re-running: {d}"))
        elif o[3] != r[3]:
            out.append(("rerun-calls", "the node functions were called with different arguments / in a different order"))
    return out


def oracle(case, obs):
    case = _tolist(case)
    if case["fam"] == "build":
        return None
    f = failures(case, obs)
    if not f:
        return None
    sigs = sorted({s for s, _ in f})
    return "+".join(sigs) + ": " + f[0][1]


# ---- cause predicates of the known findings (independent re-statement of the theorems' guards) ----
def _find(lst, lab):
    for x in lst:
        if x[0] == lab:
            return x
    return None


def _chain(kids, c, l):
    """hops (running, value) a value pushed into input l of kid c takes"""
    k = _find(kids, c)
    out = []
    while k is not None:
        ch = _find(k[INS], l)
        if ch is None:
            break
        out.append((k[FLAGS][1], ch[1]))
        r = ch[3]
        if r and r[0] == "c":
            k, l = _find(k[KIDS], r[1]), r[2]
        else:
            break
    return out


def links_dangling(s):
    for _, n in _nodes_of(s):
        linked = n[KIND] == "linked"
        for c in n[INS]:
            r = c[3]
            if linked:
                k = _find(n[KIDS], r[1]) if r and r[0] == "c" else None
                if k is None or _find(k[INS], r[2]) is None:
                    return True
            elif r:
                return True
        for k in n[KIDS]:
            for c in k[OUTS]:
                r = c[3]
                if not r:
                    continue
                if not linked or r[0] != "p" or _find(n[OUTS], r[1]) is None:
                    return True
    return False


def links_locked(s):
    for _, n in _nodes_of(s):
        for c in n[INS]:
            r = c[3]
            if r and r[0] == "c" and any(run for run, _ in _chain(n[KIDS], r[1], r[2])):
                return True
    return False


def links_desynced(s):
    for _, n in _nodes_of(s):
        for c in n[INS]:
            r = c[3]
            if r and r[0] == "c" and any(v != c[1] for _, v in _chain(n[KIDS], r[1], r[2])):
                return True
        for k in n[KIDS]:
            for c in k[OUTS]:
                r = c[3]
                if r and r[0] == "p":
                    o = _find(n[OUTS], r[1])
                    if o is not None and o[1] != c[1]:
                        return True
    return False


def fanout_noncanonical(s):
    """some output signal lists its receivers in another order than a restore produces
    (= reverse order of the receivers in child order, then channel order)"""
    for _, n in _nodes_of(s):
        order = [[k[L], c[0]] for k in n[KIDS] for c in k[SIN]]
        lists = {(k[L], c[0]): c[1] for k in n[KIDS] for c in k[SIN]}
        for k in n[KIDS]:
            for c in k[SOUT]:
                me = [k[L], c[0]]
                canon = [i for i in order if me in lists[(i[0], i[1])]]
                if c[1] != canon[::-1]:
                    return True
    return False


EXPLAINS = {
    "C07-unused-macro-input-unloadable": {"load-error"},
    "C07-running-link-unloadable": {"load-error"},
    "C07-link-value-overwritten": {"value", "rerun-output", "rerun-calls", "rerun-order"},
    "C07-file-load-foreign-owner": {"owner", "load-error"},
    "C07-signal-fanout-order": {"rerun-order", "rerun-output", "rerun-calls", "rerun-result"},
}


def causes(case, obs):
    before, after = obs[0], obs[1]
    out = []
    if links_dangling(before):
        out.append("C07-unused-macro-input-unloadable")
    elif links_locked(before):
        out.append("C07-running-link-unloadable")
    elif links_desynced(before):
        out.append("C07-link-value-overwritten")
    if case["backend"] == "file" and (not (after and after[0] == "ERR")
                                      or (case["trips"] >= 2 and before[KIND] == "linked" and before[INS])):
        # a load error is this finding only when a macro loaded from file is saved and loaded AGAIN
        out.append("C07-file-load-foreign-owner")
    if fanout_noncanonical(before):
        out.append("C07-signal-fanout-order")
    return out


def known(case, obs, verdict):
    case = _tolist(case)
    if case["fam"] == "build" or obs == "timeout":
        return None
    sigs = verdict.split(":")[0].split("+")
    cs_ = causes(case, obs)
    first = None
    for s in sigs:
        hit = [c for c in cs_ if s in EXPLAINS[c]]
        if not hit:
            return None
        if first is None:
            first = hit[0]
    return first


# =========================================================================== generator
def _gen_ins(rng, i, n, arity, auto, allow_none=True):
    ins = []
    for _ in range(arity):
        pool = list(range(i)) if auto else [j for j in range(n) if j != i]
        conns = []
        if pool and rng.random() < 0.7:
            conns = rng.sample(pool, min(len(pool), rng.choice([1, 1, 2, 2, 3])))
        init = rng.randint(0, 40) if (not conns or rng.random() < 0.6) else None
        ins.append({"init": init, "conns": conns})
    return ins


def gen_graph(rng, flavour, backend):
    """flavour: 'flow' (hand-wired, all function nodes, acyclic signals), 'hand' (hand-wired, anything,
    maybe cyclic), 'auto' (automated DAG)"""
    auto = flavour == "auto"
    n = rng.randint(2, 7 if flavour == "flow" else 6)
    ns = []
    mac = [m for m in MACROS if m != "MUnused"] * 3 + ["MUnused"]
    for i in range(n):
        r = rng.random()
        lab = f"n{i}"
        if flavour == "flow" or r < 0.55:
            ar = rng.choice([0, 1, 1, 2, 2, 3])
            if i == 0 and auto:
                ar = rng.choice([0, 1])
            nd = {"l": lab, "t": "lin", "k": rng.randint(1, 60), "ins": _gen_ins(rng, i, n, ar, auto)}
        elif r < 0.85:
            t = rng.choice(mac)
            ins = _gen_ins(rng, i, n, len(MACRO_INS[t]), auto)
            if ins[0]["init"] is None and not ins[0]["conns"]:
                ins[0]["init"] = 1
            nd = {"l": lab, "t": t, "k": 0, "ins": ins}
        elif r < 0.9:
            ins = _gen_ins(rng, i, n, 2, auto)
            ins[0] = {"init": [rng.randint(0, 9) for _ in range(rng.randint(1, 3))], "conns": []}
            nd = {"l": lab, "t": "for", "k": rng.randint(1, 9), "ins": ins}
        elif r < 0.95:
            nd = {"l": lab, "t": "tolist", "k": 0, "ins": _gen_ins(rng, i, n, rng.choice([1, 2, 3]), auto)}
        elif backend != "pickle":
            nd = {"l": lab, "t": "local", "k": rng.randint(1, 9), "ins": _gen_ins(rng, i, n, 1, auto)}
        else:
            nd = {"l": lab, "t": "lin", "k": rng.randint(1, 60), "ins": _gen_ins(rng, i, n, 1, auto)}
        ex = rng.random()
        if ex < 0.06:
            nd["exec"] = "instr"
        elif ex < 0.12:
            nd["exec"] = rng.choice(["factory", "factory", "factory_kw"])
        elif ex < 0.16 and nd["t"] == "lin":
            nd["exec"] = "live"
        ns.append(nd)
    # tolist / for consume lists or ints; keep the data they receive harmless: a for-loop's iterated input is constant
    g = {"root": "wf", "auto": auto, "nodes": ns}
    if not auto:
        sig = []
        for d in range(1, n):
            srcs = rng.sample(range(d), min(d, rng.choice([0, 1, 1, 2, 3])))
            mode = "accumulate_and_run" if (len(srcs) >= 2 and rng.random() < 0.6) or rng.random() < 0.15 else "run"
            for s in srcs:
                sig.append([s, d, mode if rng.random() < 0.9 else "run"])
        rng.shuffle(sig)
        if flavour == "hand" and rng.random() < 0.3 and n > 2:
            s, d = rng.randrange(1, n), rng.randrange(0, n)
            sig.append([s, d, "run"])          # possibly a back edge: a cyclic flow (no re-run then)
            g["cyclic"] = True
        start = [i for i in range(n) if not any(e[1] == i for e in sig)] or [0]
        if rng.random() < 0.3:
            rng.shuffle(start)
        g["sig"], g["start"] = sig, start
    return g


def gen_rt(rng):
    backend = rng.choice(["pickle", "pickle", "cloudpickle", "file", "file"])
    r = rng.random()
    if r < 0.08:
        t = rng.choice([m for m in MACROS if m != "MUnused"] * 3 + ["MUnused"])
        ins = [{"init": rng.randint(0, 9), "conns": []} for _ in MACRO_INS[t]]
        g = {"root": "macro", "auto": True, "nodes": [{"l": "m", "t": t, "k": 0, "ins": ins}]}
    elif r < 0.12:
        ar = rng.choice([0, 1, 2])
        g = {"root": "lin", "auto": True,
             "nodes": [{"l": "f", "t": "lin", "k": rng.randint(1, 9),
                        "ins": [{"init": rng.choice([None, rng.randint(0, 9)]), "conns": []} for _ in range(ar)]}]}
    else:
        g = gen_graph(rng, rng.choice(["flow", "flow", "hand", "auto", "auto"]), backend)
    case = {"fam": "rt", "graph": g, "state": rng.choice(["new", "run", "run", "fail", "mid"]), "backend": backend,
            "trips": rng.choice([1, 1, 1, 2, 2, 3])}
    if g.get("cyclic"):
        case["state"] = rng.choice(["new", "mid"])       # an unterminated cyclic flow is never run
    ns = g["nodes"]
    if case["state"] == "fail":
        tags = [i for i, nd in enumerate(ns) if nd["t"] in ("lin", "local")]
        inner = {"MChain": [101, 102], "MFork": [112, 113], "MMulti": [124], "MHand": [133], "MHandC": [142],
                 "MOuter": [102, 151], "MDeep": [112, 142, 171], "MUnused": [161]}
        for nd in ns:
            tags += inner.get(nd["t"], [])
        case["failtags"] = [rng.choice(tags)] if tags else []
    post = []
    paths = [[nd["l"]] for nd in ns] if g["root"] == "wf" else [[]]
    sub = {"MChain": ["p", "q"], "MFork": ["x", "p", "q", "r"], "MMulti": ["p", "r"], "MHand": ["p", "s"],
           "MHandC": ["p", "q"], "MOuter": ["inner", "s"], "MDeep": ["f", "h", "s"], "MUnused": ["p"]}
    deep = []
    for nd in ns:
        base = [nd["l"]] if g["root"] == "wf" else []
        for c in sub.get(nd["t"], []):
            deep.append(base + [c])
        if nd["t"] == "MOuter":
            deep.append(base + ["inner", "p"])
        if nd["t"] == "MDeep":
            deep += [base + ["f", "p"], base + ["h", "q"]]
    if case["state"] == "mid":
        case["state"] = "new" if g.get("cyclic") else rng.choice(["new", "run"])
        p = rng.choice(paths + deep + deep)
        for j in range(len(p) + 1):
            if rng.random() < 0.85:
                post.append(["running", p[:j], True])
    if rng.random() < 0.25:
        # executor instructions (class based, factory function, live) on top-level nodes and on nodes nested in macros
        for p in rng.sample(paths + deep + deep, min(len(paths + deep + deep), rng.choice([1, 1, 2]))):
            post.append(["exec", p, rng.choice(["instr", "factory", "factory", "factory_kw", "live"])])
    if deep and rng.random() < 0.1:
        # a direct edit below a value link
        linked_in = {"MChain": (["p"], "a"), "MFork": (["p"], "b"), "MMulti": (["q"], "a"), "MHand": (["p"], "a"),
                     "MHandC": (["p"], "a"), "MOuter": (["inner"], "x"), "MDeep": (["f"], "z"), "MUnused": (["p"], "a")}
        cands = [nd for nd in ns if nd["t"] in linked_in]
        if cands:
            nd = rng.choice(cands)
            base = [nd["l"]] if g["root"] == "wf" else []
            pth, chn = linked_in[nd["t"]]
            post.append(["setin", base + pth, chn, rng.randint(50, 90)])
    if post:
        case["post"] = post
    if g["root"] == "wf" and backend != "file" and rng.random() < 0.15:
        accs = sorted({d for (_, d, m) in g.get("sig", []) if m == "accumulate_and_run"})
        # prefer a child whose all-of trigger may be mid-round (it has heard some of its siblings)
        case["target"] = [ns[rng.choice(accs)]["l"]] if accs and rng.random() < 0.6 else [rng.choice(ns)["l"]]
    elif not g.get("cyclic"):
        case["rerun"] = rng.random() < 0.75
    return case


def generate(ctx):
    rng = ctx.rng
    cases, seen = [], set()
    n_rt, n_b = ctx.n(700, 3000), ctx.n(180, 800)
    while len(cases) < n_rt:
        c = gen_rt(rng)
        k = _ck(c)
        if k not in seen:
            seen.add(k)
            cases.append(c)
    while len(cases) < n_rt + n_b:
        c = gen_build(rng)
        k = _ck(c)
        if k not in seen:
            seen.add(k)
            cases.append(c)
    return cases


def corpus(ctx):
    out = []
    for p in sorted((lib.VERIF / "corpus" / PROP).glob("*.json")):
        out.extend(json.loads(p.read_text()))
    return out


def nontrivial(case, obs):
    if case["fam"] == "build":
        return sum(1 for o in case["ops"] if o[0] in ("cd", "cs")) >= 2
    if obs == "timeout":
        return False
    before = obs[0]
    if case.get("target"):
        return True
    conns = sum(len(c[2]) for k in before[KIDS] for c in k[INS]) + sum(len(c[1]) for k in before[KIDS] for c in k[SIN])
    return len(before[KIDS]) >= 2 and conns >= 1


def key(case):
    return case


def shrink_candidates(case):
    case = _tolist(case)
    if case["fam"] != "rt":
        for i in range(len(case["ops"])):
            yield {"fam": "build", "ops": case["ops"][:i] + case["ops"][i + 1:]}
        return
    if case["trips"] > 1:
        yield dict(case, trips=1)
    if case.get("post"):
        for i in range(len(case["post"])):
            yield dict(case, post=case["post"][:i] + case["post"][i + 1:])
    if case["state"] != "new":
        yield dict(case, state="new")
    g = case["graph"]
    if g["root"] != "wf":
        return
    ns = g["nodes"]
    tgt = case.get("target")
    # drop the last node (nothing refers forward to it in automated graphs; patch references otherwise)
    for drop in range(len(ns) - 1, -1, -1):
        if len(ns) <= 1 or (tgt and ns[drop]["l"] == tgt[0]):
            continue
        ren = lambda j: j if j < drop else j - 1
        ns2 = []
        for i, nd in enumerate(ns):
            if i == drop:
                continue
            nd2 = dict(nd, ins=[{"init": (inp["init"] if inp["init"] is not None or any(u != drop for u in inp["conns"]) else 1),
                                 "conns": [ren(u) for u in inp["conns"] if u != drop]} for inp in nd["ins"]])
            ns2.append(nd2)
        g2 = dict(g, nodes=ns2)
        if not g["auto"]:
            g2["sig"] = [[ren(s), ren(d), m] for s, d, m in g.get("sig", []) if s != drop and d != drop]
            g2["start"] = [ren(s) for s in g.get("start", []) if s != drop] or [0]
        c2 = dict(case, graph=g2)
        if case.get("post"):
            c2["post"] = [p for p in case["post"] if not (p[1] and p[1][0] == ns[drop]["l"])]
        yield c2
    for i, nd in enumerate(ns):
        for j, inp in enumerate(nd["ins"]):
            if len(inp["conns"]) > 0:
                for u in range(len(inp["conns"])):
                    ins2 = [dict(x) for x in nd["ins"]]
                    ins2[j] = {"init": inp["init"] if inp["init"] is not None else 1,
                               "conns": inp["conns"][:u] + inp["conns"][u + 1:]}
                    yield dict(case, graph=dict(g, nodes=ns[:i] + [dict(nd, ins=ins2)] + ns[i + 1:]))
        if nd.get("exec"):
            nd2 = {k: v for k, v in nd.items() if k != "exec"}
            yield dict(case, graph=dict(g, nodes=ns[:i] + [nd2] + ns[i + 1:]))
    if not g["auto"]:
        for i in range(len(g.get("sig", []))):
            yield dict(case, graph=dict(g, sig=g["sig"][:i] + g["sig"][i + 1:]))


def distribution(results):
    d = {"rt": 0, "build": 0, "backend": {}, "state": {}, "trips": {}, "child_alone": 0, "rerun": 0,
         "rerun_modelled": 0, "load_errors": 0, "roots": {}, "node_types": {}, "multi_conn_inputs": 0, "timeouts": 0}
    for c, enc_, v, o in results:
        d[c["fam"]] += 1
        if c["fam"] != "rt":
            continue
        for k in ("backend", "state", "trips"):
            d[k][str(c[k])] = d[k].get(str(c[k]), 0) + 1
        d["roots"][c["graph"]["root"]] = d["roots"].get(c["graph"]["root"], 0) + 1
        for nd in c["graph"]["nodes"]:
            d["node_types"][nd["t"]] = d["node_types"].get(nd["t"], 0) + 1
        if c.get("target"):
            d["child_alone"] += 1
        if o == "timeout" or not isinstance(o, list) or len(o) < 4:
            d["timeouts"] += 1
            continue
        if o[2]:
            d["rerun"] += 1
            if flat_modelled(c, o[0]):
                d["rerun_modelled"] += 1
        if o[1] and o[1][0] == "ERR":
            d["load_errors"] += 1
        d["multi_conn_inputs"] += sum(1 for _, n in _nodes_of(o[0]) for k in n[KIDS] for ch in k[INS] if len(ch[2]) >= 2)
    return d
