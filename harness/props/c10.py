"""C10 -- executors are transparent and a node's inputs are frozen while it is out.

Model: coq/theories/Remote.v (heap of node / channel OBJECTS with identities; dump = the
__getstate__ chain, restore = unpickling + the __setstate__ chain, merge_remote =
Composite/Macro._parse_remotely_executed_self step by step; the run cycle with the input lock).
Tie: the real graph is built from the case, its object graph is REFLECTED into a heap literal
(node / channel identities = enumeration order), the scenario is run on the real library with the
PickleBoundaryExecutor (callable and result through cloudpickle, completions from the poll hook in
the prescribed order) and the final object graph is rendered exactly as the model renders its heap.
The oracle checks the property on the implementation alone (against an all-local run of the same
graph and against the snapshot of identities / connection lists taken before the run).
"""
from __future__ import annotations

import concurrent.futures as cf
import itertools
import json
import os

from harness import lib, nodes
from harness.lib import cb, cl, cn, cs, cz

PROP = "C10"
IMPORTS = "Base Remote"
SHARD = 40
RULE = ("workflows of 1-5 children in topological numbering: function leaves (0-3 args, constants or 1-2 prioritised "
        "connections to earlier children) and macros from a fixed library (chain, forked input, nested, two outputs, "
        "doubly nested); every child, every node inside a macro and the root independently local / manual executor / "
        "pickle-boundary executor / executor given as instructions; every completion order by the oracle list "
        "(small shapes exhaustively in the thorough tier); plus run-cycle histories (set / run / complete / clear) on one "
        "leaf or macro with neighbours; plus For nodes and real thread / process / cloudpickle-process pools. "
        "Non-trivial: at least one node crosses a pickle boundary or is probed while out. Distinct = distinct case.")
TRUSTED = ["harness PickleBoundaryExecutor (cloudpickle.dumps at submit, loads + run + dumps/loads of the result at the "
           "scheduled completion) as the serialisation contract of a process pool",
           "reflection of the real object graph into the model's initial heap (harness/props/c10.py reflect)",
           "C01 (Dag.v) for the scheduling part of 'every completion order'"]
ASSUMPTIONS = ["node functions deterministic and integer valued; DAG-wired composites; fresh graphs (first run is not a cache hit)",
               "a boundary-merged macro that is SUBMITTED AGAIN is outside the modelled domain (implementation + oracle only)"]

KIND_MAN, KIND_PB, KIND_IPB = "man", "pb", "ipb"
REAL = ("thread", "proc", "cproc", "ithread", "icproc")
BOUNDARY = ("pb", "ipb", "proc", "cproc", "icproc")


def C():
    from harness import c10_nodes
    return c10_nodes


# =========================================================================== building
def leaf_cls(kid):
    m = len(kid["ins"])
    if kid.get("chk"):
        return {1: nodes.Chk1, 2: nodes.Chk2}[m]
    return nodes.LIN[m]


def make_executor(spec, pools):
    """spec -> the object assigned to node.executor"""
    c = C()
    if spec == "man":
        if 0 not in c.REGISTRY:
            c.REGISTRY[0] = nodes.ManualExecutor()
        return c.REGISTRY[0]
    if spec == "pb":
        return c.get_pbe(1)
    if spec == "ipb":
        return (c.get_pbe, (2,), {})
    if spec == "thread":
        if "thread" not in pools:
            pools["thread"] = cf.ThreadPoolExecutor(max_workers=2)
        return pools["thread"]
    if spec == "proc":
        if "proc" not in pools:
            pools["proc"] = cf.ProcessPoolExecutor(max_workers=2)
        return pools["proc"]
    if spec == "cproc":
        from pyiron_workflow.executors.cloudpickleprocesspool import CloudpickleProcessPoolExecutor
        if "cproc" not in pools:
            pools["cproc"] = CloudpickleProcessPoolExecutor(max_workers=2)
        return pools["cproc"]
    if spec == "ithread":
        return (cf.ThreadPoolExecutor, (), {"max_workers": 1})
    if spec == "icproc":
        from pyiron_workflow.executors.cloudpickleprocesspool import CloudpickleProcessPoolExecutor
        return (CloudpickleProcessPoolExecutor, (), {"max_workers": 1})
    raise ValueError(spec)


EXCODE = {None: [0, 0], "man": [1, 0], "pb": [1, 1], "ipb": [2, 2], "thread": [1, 3], "proc": [1, 4], "cproc": [1, 5],
          "ithread": [2, 6], "icproc": [2, 7]}


def build(case, with_executors=True, pools=None):
    """-> (wf, placed) where placed = [(path, node, spec, executor object)]"""
    from pyiron_workflow import Workflow
    c = C()
    pools = {} if pools is None else pools
    wf = Workflow("wf")
    kids = []
    placed = []
    for i, kid in enumerate(case["kids"]):
        kw = {}
        if kid["t"] == "leaf":
            kw = {"tag": i, "k": kid["k"]}
            labels = nodes.ARG
            node = leaf_cls(kid)
        elif kid["t"] == "macro":
            cls, labels, _ = c.MACROS[kid["cls"]]
            node = cls
        elif kid["t"] == "for":
            from pyiron_workflow.nodes.for_loop import for_node
            labels = ["a"]
        for j, inp in enumerate(kid["ins"]):
            if inp[0] == "c":
                kw[labels[j]] = inp[1]
        if kid["t"] == "for":
            node = for_node(nodes.Lin1, iter_on=("a",), output_as_dataframe=False, label=f"n{i}", tag=900 + i, k=kid["k"])
        else:
            node = node(label=f"n{i}", **kw)
        wf.add_child(node)
        kids.append(node)
        for j, inp in enumerate(kid["ins"]):
            if inp[0] == "n":
                for u in reversed(inp[1]):       # lowest priority first: the newest connection wins
                    up = kids[u]
                    first_out = next(iter(up.outputs))
                    node.inputs[labels[j]].connect(first_out)
        if with_executors:
            if kid.get("ex"):
                placed.append((f"/wf/n{i}", node, kid["ex"]))
            for rel, spec in sorted((kid.get("inner") or {}).items()):
                sub = node
                for part in rel.split("/"):
                    sub = sub.children[part]
                placed.append((f"/wf/n{i}/{rel}", sub, spec))
    if with_executors and case.get("root_ex"):
        placed.append(("/wf", wf, case["root_ex"]))
    out = []
    for path, node, spec in placed:
        ex = make_executor(spec, pools)
        node.executor = ex
        out.append((path, node, spec, ex))
    return wf, out


# =========================================================================== walking / rendering
def walk(node, path):
    from pyiron_workflow.nodes.composite import Composite
    yield path, node
    if isinstance(node, Composite):
        for label, child in node.children.items():
            yield from walk(child, path + "/" + label)


def panels(node):
    """[(panel code, [channels in order])]; a workflow's data panels are rebuilt views of its children's channels"""
    from pyiron_workflow.workflow import Workflow
    if isinstance(node, Workflow):
        return [(2, list(node.signals.input)), (3, list(node.signals.output))]
    return [(0, list(node.inputs)), (1, list(node.outputs)), (2, list(node.signals.input)), (3, list(node.signals.output))]


def node_kind(node):
    from pyiron_workflow.nodes.for_loop import For
    from pyiron_workflow.nodes.macro import Macro
    from pyiron_workflow.workflow import Workflow
    if isinstance(node, Workflow):
        return "wf"
    if isinstance(node, Macro):
        return "macro"
    if isinstance(node, For):
        return "for"
    name = type(node).__name__
    if name.startswith("Lin"):
        return "lin"
    if name == "Chk1x":
        return "chkx"
    if name.startswith("Chk"):
        return "chk"
    if name == "UserInput":
        return "id"
    return "other:" + name


def val(v):
    from pyiron_workflow.channels import NOT_DATA
    if v is NOT_DATA:
        return None
    if isinstance(v, bool) or not isinstance(v, int):
        return ["?", type(v).__name__]
    return v


def live_maps(root):
    nmap, cmap = {}, {}
    for path, node in walk(root, "/" + root.label):
        nmap[id(node)] = path
        for pc, chans in panels(node):
            for ch in chans:
                cmap[id(ch)] = (path, pc, ch.label)
    return nmap, cmap


def render(root, exmap):
    """canonical observation of the live object graph (the model renders its heap the same way)"""
    from pyiron_workflow.nodes.composite import Composite
    nmap, cmap = live_maps(root)

    def rnode(node, path, parent):
        try:
            lp = node.lexical_path
            path_ok = 1 if lp == path else ["WRONG", lp]
        except ValueError:
            path_ok = 0
        ex = node.executor
        exid = exmap.get(id(ex), [9, 9]) if ex is not None else [0, 0]
        chans = []
        for pc, chs in panels(node):
            for ch in chs:
                conns = []
                for o in ch.connections:
                    where = cmap.get(id(o))
                    mutual = sum(1 for b in o.connections if b is ch)
                    if where is None:
                        conns.append(["DEAD", o.owner.label, o.label, mutual])
                    else:
                        conns.append([where[0], where[1], where[2], mutual])
                row = [pc, ch.label, 1 if ch.owner is node else 0, conns]
                if pc in (0, 1):
                    r = ch.value_receiver
                    rw = None if r is None else (list(cmap[id(r)]) if id(r) in cmap else ["DEAD", r.owner.label, r.label])
                    row += [val(ch.value), rw]
                chans.append(row)
        kids, starting = [], []
        if isinstance(node, Composite):
            kids = [rnode(ch, path + "/" + lab, node) for lab, ch in node.children.items()]
            starting = [s.label for s in node.starting_nodes]
        return [node.label, node_kind(node), [int(bool(node.running)), int(bool(node.failed))], exid,
                1 if node.parent is parent else 0, path_ok, node.detached_parent_path, chans, kids, starting]
    return rnode(root, "/" + root.label, None)


# =========================================================================== reflection into the model's heap
KINDC = {"wf": "KWf", "macro": "KMacro", "for": "KFor", "lin": "(KLeaf FLin)", "chk": "(KLeaf FChk)",
         "chkx": "(KLeaf FChkx)", "id": "(KLeaf FId)"}
PANELC = ["PIn", "POut", "SIn", "SOut"]


def reflect(root, exmap):
    """the live object graph as a Coq term of type Remote.heap (ids = enumeration order); None when the
    graph holds something the model has no vocabulary for"""
    from pyiron_workflow.nodes.composite import Composite
    nid, cid, order = {}, {}, []
    for path, node in walk(root, "/" + root.label):
        nid[id(node)] = len(nid)
        order.append(node)
    for node in order:
        for pc, chs in panels(node):
            for ch in chs:
                cid[id(ch)] = len(cid)
    ntxt, ctxt = [], []
    for node in order:
        k = node_kind(node)
        if k not in KINDC:
            return None
        chans = []
        for pc, chs in panels(node):
            for ch in chs:
                if id(ch.owner) not in nid or any(id(o) not in cid for o in ch.connections):
                    return None
                v = None
                r = None
                if pc in (0, 1):
                    v = val(ch.value)
                    if isinstance(v, list):
                        return None
                    if ch.value_receiver is not None:
                        if id(ch.value_receiver) not in cid:
                            return None
                        r = cid[id(ch.value_receiver)]
                chans.append(cid[id(ch)])
                ctxt.append(f"({cn(cid[id(ch)])}, mkChan {cn(nid[id(ch.owner)])} {cs(ch.label)} {PANELC[pc]} "
                            f"{cl(cn(cid[id(o)]) for o in ch.connections)} {lib.copt(v, cz)} {lib.copt(r, cn)})")
        kids, starting = [], []
        if isinstance(node, Composite):
            kids = [nid[id(c)] for c in node.children.values()]
            starting = [nid[id(s)] for s in node.starting_nodes]
        par = None if node.parent is None else nid[id(node.parent)]
        ex = node.executor
        e = exmap.get(id(ex)) if ex is not None else [0, 0]
        if e is None:
            return None
        etxt = "ExNone" if e[0] == 0 else f"({'ExInst' if e[0] == 1 else 'ExInstr'} {cn(e[1])})"
        ntxt.append(f"({cn(nid[id(node)])}, mkNode {cs(node.label)} {KINDC[k]} {lib.copt(par, cn)} "
                    f"{lib.copt(node.detached_parent_path, cs)} {etxt} {cb(bool(node.running))} {cb(bool(node.failed))} "
                    f"{cl(cn(x) for x in kids)} {cl(cn(x) for x in chans)} {cl(cn(x) for x in starting)})")
    return f"(mkHeap {cl(ntxt)} {cl(ctxt)} {cn(max(len(nid), len(cid)))})", nid


# =========================================================================== drivers
def find_owner_of_future(root, fut):
    for path, node in walk(root, "/" + root.label):
        if node.future is fut:
            return path, node
    return None, None


def node_inputs(node):
    return list(node.inputs)          # for a workflow: the rebuilt view onto its children's open inputs


def probe_node(path, node, probes):
    for ch in node_inputs(node):
        try:
            ch.value = ch.value
            r = "ok"
        except RuntimeError:
            r = "RuntimeError"
        row = [path, ch.label, r]
        if row not in probes:
            probes.append(row)


def make_hook(root, order, probes, do_probe):
    order = list(order)

    def hook():
        pend = C().pending()
        if not pend:
            return False
        if do_probe:
            for ex, fut in pend:
                path, node = find_owner_of_future(root, fut)
                if node is not None:
                    probe_node(path, node, probes)
        k = order.pop(0) if order else 0
        ex, fut = pend[k % len(pend)]
        ex.complete(fut)
        return True
    return hook


def is_real(case):
    specs = [k.get("ex") for k in case["kids"]] + [s for k in case["kids"] for s in (k.get("inner") or {}).values()]
    specs.append(case.get("root_ex"))
    specs.append(case.get("ex"))
    return any(s in REAL for s in specs)


def snapshot(root, placed):
    """identities and neighbour connection lists of the nodes that are about to be sent (for the oracle)"""
    nmap, cmap = live_maps(root)
    snap = []
    for path, node, spec, ex in placed:
        rows = []
        for pc, chs in panels(node):
            for ch in chs:
                rows.append([pc, ch.label, [list(cmap[id(o)]) for o in ch.connections],
                             [[list(cmap[id(b)]) for b in o.connections] for o in ch.connections]])
        snap.append({"path": path, "node": node, "parent": node.parent, "ex": ex, "spec": spec, "rows": rows})
    return snap


def check_snapshot(root, snap):
    """-> list of [path, what] : what the sent nodes lost (identity of parent / executor / self, neighbour connections)"""
    nmap, cmap = live_maps(root)
    lost = []
    for s in snap:
        node, path = s["node"], s["path"]
        if nmap.get(id(node)) != path:
            lost.append([path, "the node object is no longer the child at its path"])
            continue
        if node.parent is not s["parent"]:
            lost.append([path, "parent"])
        if node.executor is not s["ex"]:
            lost.append([path, "executor"])
        now = {(pc, ch.label): ch for pc, chs in panels(node) for ch in chs}
        for pc, label, conns, partner_lists in s["rows"]:
            ch = now.get((pc, label))
            if ch is None:
                lost.append([path, f"channel {label}"])
                continue
            here = [list(cmap.get(id(o), ("DEAD", 0, o.label))) for o in ch.connections]
            if here != conns:
                lost.append([path, f"connections of {label}: {conns} -> {here}"])
                continue
            for o, before in zip(ch.connections, partner_lists):
                there = [list(cmap.get(id(b), ("DEAD", 0, b.label))) for b in o.connections]
                if there != before:
                    lost.append([path, f"neighbour side of {label}: {before} -> {there}"])
                elif sum(1 for b in o.connections if b is ch) != 1:
                    lost.append([path, f"neighbour of {label} does not point at the live channel"])
    return lost


def values_by_path(root):
    out = []
    for path, node in walk(root, "/" + root.label):
        if node_kind(node) == "wf":
            continue
        out.append([path, [[ch.label, val(ch.value)] for ch in node.outputs]])
    return out


def reference(case):
    """all-local run of the same graph: outputs of every node by path"""
    nodes.reset()
    C().reset_registry()
    wf, _ = build(case, with_executors=False)
    try:
        wf.run()
        res = "ok"
    except Exception as e:      # noqa
        res = type(e).__name__
    return [res, values_by_path(wf), sorted(t for t, a in nodes.CALLS)]


def exmap_of(placed):
    m = {}
    for path, node, spec, ex in placed:
        m[id(ex)] = EXCODE[spec]
    return m


def drive_pending(root, order, probes, do_probe, limit=200):
    hook = make_hook(root, order, probes, do_probe)
    n = 0
    while hook() is not False and n < limit:
        n += 1


def run_flow(case):
    import time
    c = C()
    ref = reference(case)
    nodes.reset()
    c.reset_registry()
    pools = {}
    real = is_real(case)
    try:
        wf, placed = build(case, pools=pools)
        wf.set_run_signals_to_dag_execution()
        exmap = exmap_of(placed)
        heap = reflect(wf, exmap)
        case["_heap"] = None if heap is None else heap[0]
        snap = snapshot(wf, placed)
        probes = []
        order = case.get("order", [])
        do_probe = bool(case.get("probe")) and not real
        res = None
        with nodes.poll_hook(make_hook(wf, order, probes, do_probe)) if not real else _null():
            try:
                r = wf.run()
                if isinstance(r, cf.Future):
                    if real:
                        try:
                            r.result(timeout=120)
                        except Exception:      # noqa
                            pass
                        t0 = time.time()
                        while wf.running and time.time() - t0 < 20:
                            time.sleep(0.01)
                    else:
                        order2 = list(order)
                        drive_pending(wf, order2, probes, do_probe)
                    res = ["future", "ok" if r.done() and r.exception() is None else "exc"]
                else:
                    res = ["ok"]
            except Exception as e:      # noqa
                res = ["err", type(e).__name__]
        lost = check_snapshot(wf, snap)
        obs = {"model": [render(wf, exmap), sorted(probes)], "res": res, "ref": ref, "values": values_by_path(wf),
               "lost": lost, "calls": sorted(t for t, a in nodes.CALLS), "pending": len(c.pending()),
               "after": run_after(case, wf, placed)}
        return obs
    finally:
        for p in pools.values():
            p.shutdown(wait=True, cancel_futures=True)


class _null:
    def __enter__(self):
        return self

    def __exit__(self, *a):
        return False


def run_after(case, wf, placed):
    """implementation-only follow-ups on the graph as the run left it"""
    out = []
    for op in case.get("after", []):
        if op == "pickle":
            try:
                import cloudpickle
                cloudpickle.dumps(wf)
                out.append(["pickle", "ok"])
            except Exception as e:      # noqa
                out.append(["pickle", type(e).__name__])
        elif op == "rerun":
            probes = []
            with nodes.poll_hook(make_hook(wf, case.get("order", []), probes, False)):
                try:
                    r = wf.run()
                    if isinstance(r, cf.Future):
                        drive_pending(wf, list(case.get("order", [])), probes, False)
                    out.append(["rerun", "ok", values_by_path(wf)])
                except Exception as e:      # noqa
                    out.append(["rerun", type(e).__name__])
    return out


def run_impl(case):
    if case["kind"] == "flow":
        return run_flow(case)
    return run_cycle(case)


def model_view(case, obs):
    return obs["model"] if isinstance(obs, dict) else obs


# --------------------------------------------------------------------------- run-cycle histories on one node
def shown_reference(case, target_kind_node):
    """what a fresh LOCAL instance of the target delivers for the inputs the target shows now"""
    node = target_kind_node
    cls = type(node)
    kw = {ch.label: ch.value for ch in node.inputs}
    try:
        fresh = cls(label="ref", **kw)
        fresh.use_cache = False
        fresh.recovery = None
        fresh.run()
        return [[ch.label, val(ch.value)] for ch in fresh.outputs]
    except Exception as e:      # noqa
        return ["raises", type(e).__name__]


def run_cycle(case):
    c = C()
    nodes.reset()
    c.reset_registry()
    t = case["target"]
    wf, placed = build(case)
    kids = [wf.children[f"n{i}"] for i in range(len(case["kids"]))]
    X = kids[t]
    for i, k in enumerate(kids):
        if i < t:
            k.run(emit_ran_signal=False)
    if case.get("parentless"):
        for k in list(kids):
            if k is not X:
                wf.remove_child(k)
        wf.remove_child(X)
        root = X
    else:
        wf.set_run_signals_to_dag_execution()
        root = wf
    X.use_cache = False
    X.recovery = None
    exmap = exmap_of(placed)
    heap = reflect(root, exmap)
    case["_heap"] = None if heap is None else heap[0]
    case["_target"] = None if heap is None else heap[1][id(X)]
    placed_x = [p for p in placed if p[1] is X]
    snap = snapshot(root, placed_x)
    log = []
    delivered = []      # after every successful completion: (outputs shown, outputs a local run gives for the inputs shown)
    xpath = "/" + root.label if root is X else f"/wf/n{t}"
    nodes.CALLS.clear()
    for op in case["ops"]:
        if op[0] == "set":
            try:
                X.inputs[op[1]].value = op[2]
                log.append("ok")
            except RuntimeError:
                log.append("RuntimeError")
        elif op[0] == "run":
            try:
                r = X.run()
                log.append("Future" if isinstance(r, cf.Future) else "value")
            except Exception as e:      # noqa
                log.append(type(e).__name__)
        elif op[0] == "complete":
            pend = c.pending()
            if not pend:
                log.append("none")
            else:
                was_failed = X.failed
                pend[0][0].complete(pend[0][1])
                # nested instruction executors inside the far side finish on their own schedule
                log.append("done")
                if not X.failed and not X.running:
                    delivered.append([[[ch.label, val(ch.value)] for ch in X.outputs], shown_reference(case, X)])
        elif op[0] == "clear":
            X.failed = False
            log.append("ok")
    lost = check_snapshot(root, snap) if not X.running else []
    return {"model": [render(root, exmap), log], "delivered": delivered, "lost": lost, "pending": len(c.pending()),
            "xpath": xpath, "running": bool(X.running), "failed": bool(X.failed)}
