"""C10 -- executors are transparent and a node's inputs are frozen while it is out.

Model: coq/theories/Remote.v (heap of node / channel OBJECTS with identities; dump = the
__getstate__ chain, restore = unpickling + the __setstate__ chain, merge_remote =
Composite/Macro._parse_remotely_executed_self step by step; the run cycle with the input lock).
Tie: the real graph is built from the case, its object graph is REFLECTED into a heap literal
(node / channel identities = enumeration order), the scenario is run on the real library with the
PickleBoundaryExecutor (callable and result through cloudpickle, completions from the poll hook in
the prescribed order) and the final object graph is rendered exactly as the model renders its heap.
The oracle checks the property on the implementation alone (against an all-local run of the same
graph and against the snapshot of identities / connection lists taken before the run).
"""
from __future__ import annotations

import concurrent.futures as cf
import itertools
import json
import os

from harness import lib, nodes
from harness.lib import cb, cl, cn, cs, cz

PROP = "C10"
IMPORTS = "Base Remote"
SHARD = 64
JOBS = 12
RULE = ("workflows of 1-5 children in topological numbering: function leaves (0-3 args, constants or 1-2 prioritised "
        "connections to earlier children) and macros from a fixed library (chain, forked input, nested, two outputs, "
        "doubly nested); every child, every node inside a macro and the root independently local / manual executor / "
        "pickle-boundary executor / executor given as instructions; every completion order by the oracle list "
        "(small shapes exhaustively in the thorough tier); plus run-cycle histories (set / set_input_values / run / "
        "run(check_readiness=False) / execute / complete / clear, incl. fail-on-executor -> repair -> out again past the gate) on one "
        "leaf or macro with neighbours; plus re-trigger histories (ORACLE ONLY, the model keeps no record of received "
        "trigger signals): a node waiting for TWO upstream siblings through accumulate_and_run goes out, comes back and is "
        "triggered again by hand-pushed runs of the siblings, compared round by round (outputs of every node, function "
        "calls) with the all-local replay of the same history; plus For nodes and real thread / process / "
        "cloudpickle-process pools. "
        "Non-trivial: at least one node crosses a pickle boundary or is probed while out. Distinct = distinct case.")
TRUSTED = ["harness PickleBoundaryExecutor (cloudpickle.dumps at submit, loads + run + dumps/loads of the result at the "
           "scheduled completion) as the serialisation contract of a process pool",
           "reflection of the real object graph into the model's initial heap (harness/props/c10.py reflect)",
           "C01 (Dag.v) for the scheduling part of 'every completion order'"]
TRUSTED.append("re-trigger family (ops `up`): judged by the oracle against an all-local replay in the same process; "
               "AccumulatingInputSignal.received_signals is not part of the model's channel state")
ASSUMPTIONS = ["node functions deterministic and integer valued; DAG-wired composites; fresh graphs (first run is not a cache hit)",
               "For nodes are driven on the implementation and judged by the oracle only (their body construction is C16's model)"]

KIND_MAN, KIND_PB, KIND_IPB = "man", "pb", "ipb"
REAL = ("thread", "proc", "cproc", "ithread", "icproc")
BOUNDARY = ("pb", "ipb", "proc", "cproc", "icproc")


def C():
    from harness import c10_nodes
    return c10_nodes


# =========================================================================== building
def leaf_cls(kid):
    m = len(kid["ins"])
    if kid.get("fn") == "list":
        return C().LinList
    if kid.get("fn") == "sum":
        return C().SumList
    if kid.get("chk"):
        return {1: nodes.Chk1, 2: nodes.Chk2}[m]
    return nodes.LIN[m]


def make_executor(spec, pools):
    """spec -> the object assigned to node.executor"""
    c = C()
    if spec == "man":
        if 0 not in c.REGISTRY:
            c.REGISTRY[0] = nodes.ManualExecutor()
        return c.REGISTRY[0]
    if spec == "pb":
        return c.get_pbe(1)
    if spec == "ipb":
        return (c.get_pbe, (2,), {})
    if spec == "thread":
        if "thread" not in pools:
            pools["thread"] = cf.ThreadPoolExecutor(max_workers=2)
        return pools["thread"]
    if spec == "proc":
        if "proc" not in pools:
            pools["proc"] = cf.ProcessPoolExecutor(max_workers=2)
        return pools["proc"]
    if spec == "cproc":
        from pyiron_workflow.executors.cloudpickleprocesspool import CloudpickleProcessPoolExecutor
        if "cproc" not in pools:
            pools["cproc"] = CloudpickleProcessPoolExecutor(max_workers=2)
        return pools["cproc"]
    if spec == "ithread":
        return (cf.ThreadPoolExecutor, (), {"max_workers": 1})
    if spec == "icproc":
        from pyiron_workflow.executors.cloudpickleprocesspool import CloudpickleProcessPoolExecutor
        return (CloudpickleProcessPoolExecutor, (), {"max_workers": 1})
    raise ValueError(spec)


EXCODE = {None: [0, 0], "man": [1, 0], "pb": [1, 1], "ipb": [2, 2], "thread": [1, 3], "proc": [1, 4], "cproc": [1, 5],
          "ithread": [2, 6], "icproc": [2, 7]}


def build(case, with_executors=True, pools=None):
    """-> (wf, placed) where placed = [(path, node, spec, executor object)]"""
    from pyiron_workflow import Workflow
    c = C()
    pools = {} if pools is None else pools
    wf = Workflow("wf")
    kids = []
    placed = []
    for i, kid in enumerate(case["kids"]):
        kw = {}
        if kid["t"] == "leaf":
            kw = {"tag": i, "k": kid["k"]}
            labels = nodes.ARG
            node = leaf_cls(kid)
        elif kid["t"] == "macro":
            cls, labels, _ = c.MACROS[kid["cls"]]
            node = cls
        elif kid["t"] == "for":
            from pyiron_workflow.nodes.for_loop import for_node
            labels = ["a"]
        for j, inp in enumerate(kid["ins"]):
            if inp[0] == "c":
                kw[labels[j]] = inp[1]
        if kid["t"] == "for":
            node = for_node(nodes.Lin1, iter_on=("a",), output_as_dataframe=False, label=f"n{i}", tag=900 + i, k=kid["k"])
        else:
            node = node(label=f"n{i}", **kw)
        wf.add_child(node)
        kids.append(node)
        for j, inp in enumerate(kid["ins"]):
            if inp[0] == "n":
                for u in reversed(inp[1]):       # lowest priority first: the newest connection wins
                    up = kids[u]
                    first_out = up.outputs["y"] if "y" in up.outputs.labels else next(iter(up.outputs))
                    node.inputs[labels[j]].connect(first_out)
        if with_executors:
            if kid.get("ex"):
                placed.append((f"/wf/n{i}", node, kid["ex"]))
            for rel, spec in sorted((kid.get("inner") or {}).items()):
                sub = node
                for part in rel.split("/"):
                    sub = sub.children[part]
                placed.append((f"/wf/n{i}/{rel}", sub, spec))
    if with_executors and case.get("root_ex"):
        placed.append(("/wf", wf, case["root_ex"]))
    out = []
    for path, node, spec in placed:
        ex = make_executor(spec, pools)
        node.executor = ex
        out.append((path, node, spec, ex))
    return wf, out


# =========================================================================== walking / rendering
def walk(node, path):
    from pyiron_workflow.nodes.composite import Composite
    yield path, node
    if isinstance(node, Composite):
        for label, child in node.children.items():
            yield from walk(child, path + "/" + label)


def panels(node):
    """[(panel code, [channels in order])]; a workflow's data panels are rebuilt views of its children's channels"""
    from pyiron_workflow.workflow import Workflow
    if isinstance(node, Workflow):
        return [(2, list(node.signals.input)), (3, list(node.signals.output))]
    return [(0, list(node.inputs)), (1, list(node.outputs)), (2, list(node.signals.input)), (3, list(node.signals.output))]


def node_kind(node):
    from pyiron_workflow.nodes.for_loop import For
    from pyiron_workflow.nodes.macro import Macro
    from pyiron_workflow.workflow import Workflow
    if isinstance(node, Workflow):
        return "wf"
    if isinstance(node, Macro):
        return "macro"
    if isinstance(node, For):
        return "for"
    name = type(node).__name__
    if name.startswith("Lin"):
        return "lin"
    if name == "Chk1x":
        return "chkx"
    if name.startswith("Chk"):
        return "chk"
    if name == "UserInput":
        return "id"
    if name in ("LinList", "SumList"):
        return "lin"
    return "other:" + name


def val(v):
    from pyiron_workflow.channels import NOT_DATA
    if v is NOT_DATA:
        return None
    if isinstance(v, list) and all(isinstance(x, int) and not isinstance(x, bool) for x in v):
        return ["list"] + v
    if isinstance(v, bool) or not isinstance(v, int):
        return ["?", type(v).__name__]
    return v


def live_maps(root):
    nmap, cmap = {}, {}
    for path, node in walk(root, "/" + root.label):
        nmap[id(node)] = path
        for pc, chans in panels(node):
            for ch in chans:
                cmap[id(ch)] = (path, pc, ch.label)
    return nmap, cmap


def ex_code(ex, exmap):
    """executor setting -> [0,0] none | [1,id] live instance | [2,id] construction instructions"""
    if ex is None:
        return [0, 0]
    if isinstance(ex, tuple):
        name = getattr(ex[0], "__name__", "")
        return {"get_pbe": [2, 2], "ThreadPoolExecutor": [2, 6], "CloudpickleProcessPoolExecutor": [2, 7]}.get(name, [9, 9])
    return exmap.get(id(ex), [9, 9])


def render(root, exmap):
    """canonical observation of the live object graph (the model renders its heap the same way)"""
    from pyiron_workflow.nodes.composite import Composite
    nmap, cmap = live_maps(root)

    def rnode(node, path, parent):
        try:
            lp = node.lexical_path
            path_ok = 1 if lp == path else ["WRONG", lp]
        except ValueError:
            path_ok = 0
        exid = ex_code(node.executor, exmap)
        chans = []
        for pc, chs in panels(node):
            for ch in chs:
                conns = []
                for o in ch.connections:
                    where = cmap.get(id(o))
                    mutual = sum(1 for b in o.connections if b is ch)
                    if where is None:
                        conns.append(["DEAD", o.owner.label, o.label, mutual])
                    else:
                        conns.append([where[0], where[1], where[2], mutual])
                row = [pc, ch.label, 1 if ch.owner is node else 0, conns]
                if pc in (0, 1):
                    r = ch.value_receiver
                    rw = None if r is None else (list(cmap[id(r)]) if id(r) in cmap else ["DEAD", r.owner.label, r.label])
                    row += [val(ch.value), rw]
                chans.append(row)
        kids, starting = [], []
        if isinstance(node, Composite):
            kids = [rnode(ch, path + "/" + lab, node) for lab, ch in node.children.items()]
            starting = [s.label for s in node.starting_nodes]
        return [node.label, node_kind(node), [int(bool(node.running)), int(bool(node.failed))], exid,
                1 if node.parent is parent else 0, path_ok, node.detached_parent_path, chans, kids, starting]
    return rnode(root, "/" + root.label, None)


# =========================================================================== reflection into the model's heap
KINDC = {"wf": "KWf", "macro": "KMacro", "for": "KFor", "lin": "(KLeaf FLin)", "chk": "(KLeaf FChk)",
         "chkx": "(KLeaf FChkx)", "id": "(KLeaf FId)"}
PANELC = ["PIn", "POut", "SIn", "SOut"]


def reflect(root, exmap):
    """the live object graph as a Coq term of type Remote.heap (ids = enumeration order); None when the
    graph holds something the model has no vocabulary for"""
    from pyiron_workflow.nodes.composite import Composite
    nid, cid, order = {}, {}, []
    for path, node in walk(root, "/" + root.label):
        nid[id(node)] = len(nid)
        order.append(node)
    for node in order:
        for pc, chs in panels(node):
            for ch in chs:
                cid[id(ch)] = len(cid)
    ntxt, ctxt = [], []
    for node in order:
        k = node_kind(node)
        if k not in KINDC:
            return None
        chans = []
        for pc, chs in panels(node):
            for ch in chs:
                if id(ch.owner) not in nid or any(id(o) not in cid for o in ch.connections):
                    return None
                v = None
                r = None
                if pc in (0, 1):
                    v = val(ch.value)
                    if isinstance(v, list):
                        return None
                    if ch.value_receiver is not None:
                        if id(ch.value_receiver) not in cid:
                            return None
                        r = cid[id(ch.value_receiver)]
                chans.append(cid[id(ch)])
                ctxt.append(f"({cn(cid[id(ch)])}, mkChan {cn(nid[id(ch.owner)])} {cs(ch.label)} {PANELC[pc]} "
                            f"{cl(cn(cid[id(o)]) for o in ch.connections)} {lib.copt(v, cz)} {lib.copt(r, cn)})")
        kids, starting = [], []
        if isinstance(node, Composite):
            kids = [nid[id(c)] for c in node.children.values()]
            starting = [nid[id(s)] for s in node.starting_nodes]
        par = None if node.parent is None else nid[id(node.parent)]
        e = ex_code(node.executor, exmap)
        if e[0] == 9:
            return None
        etxt = "ExNone" if e[0] == 0 else f"({'ExInst' if e[0] == 1 else 'ExInstr'} {cn(e[1])})"
        ntxt.append(f"({cn(nid[id(node)])}, mkNode {cs(node.label)} {KINDC[k]} {lib.copt(par, cn)} "
                    f"{lib.copt(node.detached_parent_path, cs)} {etxt} {cb(bool(node.running))} {cb(bool(node.failed))} "
                    f"{cl(cn(x) for x in kids)} {cl(cn(x) for x in chans)} {cl(cn(x) for x in starting)})")
    return f"(mkHeap {cl(ntxt)} {cl(ctxt)} {cn(max(len(nid), len(cid)))} [])", nid


# =========================================================================== drivers
def find_owner_of_future(root, fut):
    for path, node in walk(root, "/" + root.label):
        if node.future is fut:
            return path, node
    return None, None


def probe_node(path, node, probes):
    for key, ch in list(node.inputs.items()):      # for a workflow: the rebuilt view onto its children's open inputs
        try:
            ch.value = ch.value
            r = "ok"
        except RuntimeError:
            r = "RuntimeError"
        row = [path, key, r]
        if row not in probes:
            probes.append(row)


def make_hook(root, order, probes, do_probe):
    order = list(order)

    def hook():
        pend = C().pending()
        if not pend:
            return False
        if do_probe:
            for ex, fut in pend:
                path, node = find_owner_of_future(root, fut)
                if node is not None:
                    probe_node(path, node, probes)
        k = order.pop(0) if order else 0
        ex, fut = pend[k % len(pend)]
        ex.complete(fut)
        return True
    return hook


def is_real(case):
    specs = [k.get("ex") for k in case["kids"]] + [s for k in case["kids"] for s in (k.get("inner") or {}).values()]
    specs.append(case.get("root_ex"))
    specs.append(case.get("ex"))
    return any(s in REAL for s in specs)


def snapshot(root, placed):
    """identities and neighbour connection lists of the nodes that are about to be sent (for the oracle)"""
    nmap, cmap = live_maps(root)
    snap = []
    for path, node, spec, ex in placed:
        rows = []
        for pc, chs in panels(node):
            for ch in chs:
                rows.append([pc, ch.label, [list(cmap[id(o)]) for o in ch.connections],
                             [[list(cmap[id(b)]) for b in o.connections] for o in ch.connections]])
        snap.append({"path": path, "node": node, "parent": node.parent, "ex": ex, "spec": spec, "rows": rows})
    return snap


def check_snapshot(root, snap):
    """-> list of [path, what] : what the sent nodes lost (identity of parent / executor / self, neighbour connections)"""
    nmap, cmap = live_maps(root)
    lost = []
    for s in snap:
        node, path = s["node"], s["path"]
        if nmap.get(id(node)) != path:
            lost.append([path, "the node object is no longer the child at its path"])
            continue
        if node.parent is not s["parent"]:
            lost.append([path, "parent"])
        if node.executor is not s["ex"]:
            lost.append([path, "executor"])
        now = {(pc, ch.label): ch for pc, chs in panels(node) for ch in chs}
        for pc, label, conns, partner_lists in s["rows"]:
            ch = now.get((pc, label))
            if ch is None:
                lost.append([path, f"channel {label}"])
                continue
            here = [list(cmap.get(id(o), ("DEAD", 0, o.label))) for o in ch.connections]
            if here != conns:
                lost.append([path, f"connections of {label}: {conns} -> {here}"])
                continue
            for o, before in zip(ch.connections, partner_lists):
                there = [list(cmap.get(id(b), ("DEAD", 0, b.label))) for b in o.connections]
                if there != before:
                    lost.append([path, f"neighbour side of {label}: {before} -> {there}"])
                elif sum(1 for b in o.connections if b is ch) != 1:
                    lost.append([path, f"neighbour of {label} does not point at the live channel"])
    return lost


def values_by_path(root):
    out = []
    for path, node in walk(root, "/" + root.label):
        if node_kind(node) == "wf":
            continue
        out.append([path, [[ch.label, val(ch.value)] for ch in node.outputs]])
    return out


def reference(case):
    """all-local run of the same graph: outputs of every node by path"""
    nodes.reset()
    C().reset_registry()
    wf, _ = build(case, with_executors=False)
    try:
        wf.run()
        res = "ok"
    except Exception as e:      # noqa
        res = type(e).__name__
    return [res, values_by_path(wf), sorted(t for t, a in nodes.CALLS)]


def shipped_composites(root, exmap):
    """[(path, node, [(label, child)])] for the composites of the LOCAL tree that cross a boundary (preorder; nothing
    below a shipped node), with the children they hold before the run"""
    from pyiron_workflow.nodes.composite import Composite
    out = []

    def go(node, path):
        code = ex_code(node.executor, exmap)
        crosses = code[0] != 0 and code[1] in (1, 2, 4, 5, 7)
        if crosses and isinstance(node, Composite):
            out.append((path, node, list(node.children.items())))
        if not crosses and isinstance(node, Composite):
            for lab, ch in node.children.items():
                go(ch, path + "/" + lab)
    go(root, "/" + root.label)
    return out


def orphans(shipped):
    return [[path, [[lab, 1 if ch.parent is None else 0, 1 if ch.detached_parent_path is None else 0,
                     1 if node.children.get(lab) is ch else 0] for lab, ch in kids]]
            for path, node, kids in shipped]


def exmap_of(placed):
    m = {}
    for path, node, spec, ex in placed:
        m[id(ex)] = EXCODE[spec]
    return m


def drive_pending(root, order, probes, do_probe, limit=200):
    hook = make_hook(root, order, probes, do_probe)
    n = 0
    while hook() is not False and n < limit:
        n += 1


def run_flow(case):
    import time
    c = C()
    ref = reference(case)
    nodes.reset()
    c.reset_registry()
    pools = {}
    real = is_real(case)
    try:
        wf, placed = build(case, pools=pools)
        wf.set_run_signals_to_dag_execution()
        exmap = exmap_of(placed)
        heap = reflect(wf, exmap)
        remember(case, None if heap is None else heap[0], None)
        shipped = [p for p, sp in crossing(case)]
        snap = snapshot(wf, [pl for pl in placed if not any(pl[0].startswith(q + "/") for q in shipped)])
        old_kids = shipped_composites(wf, exmap)
        probes = []
        order = case.get("order", [])
        do_probe = bool(case.get("probe")) and not real
        res = None
        with nodes.poll_hook(make_hook(wf, order, probes, do_probe)) if not real else _deadline():
            try:
                r = wf.run()
                if isinstance(r, cf.Future):
                    if real:
                        try:
                            r.result(timeout=120)
                        except Exception:      # noqa
                            pass
                        t0 = time.time()
                        while wf.running and time.time() - t0 < 20:
                            time.sleep(0.01)
                    else:
                        order2 = list(order)
                        drive_pending(wf, order2, probes, do_probe)
                    res = ["future", "ok" if r.done() and r.exception() is None else "exc"]
                else:
                    res = ["ok"]
            except Exception as e:      # noqa
                res = ["err", type(e).__name__]
        lost = check_snapshot(wf, snap)
        obs = {"model": [render(wf, exmap), sorted(probes), orphans(old_kids)], "res": res, "ref": ref, "values": values_by_path(wf),
               "lost": lost, "calls": sorted(t for t, a in nodes.CALLS), "pending": len(c.pending()),
               "after": run_after(case, wf, placed)}
        return obs
    finally:
        for p in pools.values():
            p.shutdown(wait=True, cancel_futures=True)


class _deadline:
    """real pools: keep the parent's real polling sleep, but give up (RuntimeError) when nothing ends in time"""
    def __init__(self, seconds=25.0):
        self.seconds = seconds

    def __enter__(self):
        import time
        import pyiron_workflow.nodes.composite as comp
        self.comp, self.old = comp, comp.sleep
        t0 = time.time()

        def sleep(dt):
            if time.time() - t0 > self.seconds:
                raise RuntimeError("deadline: children still running")
            self.old(dt)
        comp.sleep = sleep
        return self

    def __exit__(self, *a):
        self.comp.sleep = self.old
        return False


def run_after(case, wf, placed):
    """implementation-only follow-ups on the graph as the run left it"""
    out = []
    for op in case.get("after", []):
        if op == "pickle":
            try:
                import cloudpickle
                cloudpickle.dumps(wf)
                out.append(["pickle", "ok"])
            except Exception as e:      # noqa
                out.append(["pickle", type(e).__name__])
        elif op == "rerun":
            probes = []
            with nodes.poll_hook(make_hook(wf, case.get("order", []), probes, False)):
                try:
                    r = wf.run()
                    if isinstance(r, cf.Future):
                        drive_pending(wf, list(case.get("order", [])), probes, False)
                    out.append(["rerun", "ok", values_by_path(wf)])
                except Exception as e:      # noqa
                    out.append(["rerun", type(e).__name__])
    return out


def run_impl(case):
    if case["kind"] == "flow":
        return run_flow(case)
    return run_cycle(case)


def model_view(case, obs):
    return obs["model"] if isinstance(obs, dict) else obs


# --------------------------------------------------------------------------- run-cycle histories on one node
def shown_reference(case, target_kind_node):
    """what a fresh LOCAL instance of the target delivers for the inputs the target shows now"""
    node = target_kind_node
    cls = type(node)
    kw = {ch.label: ch.value for ch in node.inputs}
    n_calls = len(nodes.CALLS)          # the reference run must leave no trace in the call log
    try:
        fresh = cls(label="ref", **kw)
        fresh.use_cache = False
        fresh.recovery = None
        fresh.run()
        return [[ch.label, val(ch.value)] for ch in fresh.outputs]
    except Exception as e:      # noqa
        return ["raises", type(e).__name__]
    finally:
        del nodes.CALLS[n_calls:]


def replay_local(case):
    """the same history on the same graph with NO executor anywhere (re-trigger family): the state after every
    `complete` mark, and what the hand-pushed upstream runs answered"""
    nodes.reset()
    C().reset_registry()
    t = case["target"]
    wf, _ = build(case, with_executors=False)
    kids = [wf.children[f"n{i}"] for i in range(len(case["kids"]))]
    for i, k in enumerate(kids):
        if i < t:
            k.run(emit_ran_signal=False)
    wf.set_run_signals_to_dag_execution()
    kids[t].use_cache = False
    kids[t].recovery = None
    nodes.CALLS.clear()
    trace, log = [], []
    for op in case["ops"]:
        if op[0] == "up":
            try:
                kids[op[1]].run(a=op[2])
                log.append("ok")
            except Exception as e:      # noqa
                log.append(type(e).__name__)
        elif op[0] == "complete":
            trace.append([values_by_path(wf), sorted(tg for tg, a in nodes.CALLS)])
    return trace, log


def run_cycle(case):
    c = C()
    retrig = any(op[0] == "up" for op in case["ops"])
    ref_trace, ref_log = replay_local(case) if retrig else ([], [])
    nodes.reset()
    c.reset_registry()
    t = case["target"]
    wf, placed = build(case)
    kids = [wf.children[f"n{i}"] for i in range(len(case["kids"]))]
    outer = kids[t]
    X = outer
    for part in (case.get("rel") or "").split("/"):      # the driven node may sit INSIDE the kid (the kid stays idle)
        if part:
            X = X.children[part]
    for i, k in enumerate(kids):
        if i < t:
            k.run(emit_ran_signal=False)
    if case.get("parentless"):
        for k in list(kids):
            if k is not X:
                wf.remove_child(k)
        wf.remove_child(X)
        root = X
    else:
        wf.set_run_signals_to_dag_execution()
        root = wf
    X.use_cache = False
    X.recovery = None
    exmap = exmap_of(placed)
    heap = reflect(root, exmap)
    remember(case, None if heap is None else heap[0], None if heap is None else (heap[1][id(X)], heap[1][id(outer)]))
    placed_x = [(xp, n, sp, ex) for (xp, n, sp, ex) in placed if n is X]
    if root is X:
        placed_x = [("/" + X.label, n, sp, ex) for (xp, n, sp, ex) in placed_x]
    snap = snapshot(root, placed_x)
    log = []
    recs = []           # per op: [out before the op, running after, failed after, jobs pending after]
    delivered = []      # per completion: [succeeded, outputs shown, what a local run gives for the inputs shown]
    xpath = "/" + root.label if root is X else f"/wf/n{t}" + ("/" + case["rel"] if case.get("rel") else "")
    nodes.CALLS.clear()
    trace = []          # re-trigger family: state after every completion, to be compared with the all-local replay
    sent = None         # the inputs the node showed when it was submitted
    extra = []          # [signature, text] found by the driver itself (needs live objects)

    def all_values():
        return [[p, [[pc, ch.label, val(ch.value)] for pc, chs in panels(n) if pc in (0, 1) for ch in chs]]
                for p, n in walk(root, "/" + root.label)]

    def shown():
        return [[ch.label, val(ch.value)] for ch in X.inputs]

    def first_pending():
        pend = c.pending()
        if not pend:
            return False
        pend[0][0].complete(pend[0][1])
        return True
    for op in case["ops"]:
        out_before = len(c.pending()) > 0
        if op[0] in ("set", "oset", "setv"):
            before = all_values()
            try:
                if op[0] == "setv":
                    X.set_input_values(**{op[1]: op[2]})
                else:
                    (X if op[0] == "set" else outer).inputs[op[1]].value = op[2]
                log.append("ok")
            except RuntimeError:
                log.append("RuntimeError")
                if all_values() != before:
                    extra.append(["refused-but-changed", f"the refused assignment {op} changed a channel value"])
        elif op[0] in ("run", "runx", "exec"):
            try:
                # runx / exec skip the readiness gate: a node whose (sticky) failed flag is still set goes out again
                r = X.run() if op[0] == "run" else X.run(check_readiness=False) if op[0] == "runx" else X.execute()
                log.append("Future" if isinstance(r, cf.Future) else "value")
                if isinstance(r, cf.Future):
                    sent = shown()
            except Exception as e:      # noqa
                log.append(type(e).__name__)
        elif op[0] == "complete":
            pend = c.pending()
            if not pend:
                log.append("none")
            else:
                if sent is not None and shown() != sent:
                    extra.append(["changed-while-out", f"sent out with {sent}, shows {shown()} before its job ended"])
                fut = pend[0][1]
                with nodes.poll_hook(first_pending):     # executors that exist only on the far side
                    pend[0][0].complete(fut)
                job_ok = fut.done() and fut.exception() is None
                log.append("done")
                if sent is not None and job_ok and shown() != sent:
                    extra.append(["shown-not-sent", f"sent out with {sent}, shows {shown()} after coming back"])
                sent = None
                delivered.append([job_ok and not X.running, [[ch.label, val(ch.value)] for ch in X.outputs],
                                  shown_reference(case, X)])
        elif op[0] == "clear":
            X.failed = False
            log.append("ok")
        elif op[0] == "up":         # a hand-pushed run of an upstream sibling with fresh data: its `ran` reaches X's trigger
            try:
                kids[op[1]].run(a=op[2])
                log.append("ok")
            except Exception as e:      # noqa
                log.append(type(e).__name__)
        if op[0] == "complete" and retrig:
            trace.append([values_by_path(root), sorted(tg for tg, a in nodes.CALLS)])
        recs.append([out_before, bool(X.running), bool(X.failed), len(c.pending())])
    lost = check_snapshot(root, snap) if not X.running else []
    # third component: every completion happened in a state that meets the hypotheses of the merge theorem
    # (computed by the model from the reflected heap; the implementation side is the constant "yes")
    return {"model": [render(root, exmap), log, [1 for d in delivered]], "delivered": delivered, "lost": lost, "pending": len(c.pending()),
            "xpath": xpath, "running": bool(X.running), "failed": bool(X.failed), "recs": recs, "extra": extra,
            "trace": trace, "ref_trace": ref_trace, "ups": [r for op, r in zip(case["ops"], log) if op[0] == "up"],
            "ref_ups": ref_log}


# =========================================================================== model
def op_coq(op, outer=0):
    if op[0] == "set":
        return f"OSet {cs(op[1])} {cz(op[2])}"
    if op[0] == "oset":
        return f"OSetOn {cn(outer)} {cs(op[1])} {cz(op[2])}"
    if op[0] == "setv":         # set_input_values(label=v): the same setter through Inputs.__setitem__
        return f"OSet {cs(op[1])} {cz(op[2])}"
    return {"run": "ORun", "runx": "ORunX", "exec": "OExec", "complete": "OComplete", "clear": "OClear"}[op[0]]


# The reflected initial heap belongs to ONE execution of run_impl: the order of some connection lists (the
# accumulate_and_run wiring, built from a python set of node objects) depends on object addresses, so two
# executions of an equal case may legitimately differ.  check.py hands model_term the very dict it handed
# run_impl, so the heap is filed under that object's identity (cases stay alive for the whole run); the
# content key is only a fallback for a case that was rebuilt from JSON.
HEAPS: dict = {}       # id(case dict) -> (heap, id of the driven node)
HEAPS_BY_KEY: dict = {}


def ckey_of(case):
    return json.dumps({k: v for k, v in case.items() if not k.startswith("_")}, sort_keys=True)


def remember(case, heap, target):
    HEAPS[id(case)] = (heap, target)
    HEAPS_BY_KEY[ckey_of(case)] = (heap, target)


def recall(case):
    if id(case) in HEAPS:
        return HEAPS[id(case)]
    return HEAPS_BY_KEY.get(ckey_of(case), (None, None))


def model_term(case):
    heap, target = recall(case)
    if heap is None or not modelled(case):
        return None
    mode = os.environ.get("VERIF_C10_MODE", "AsWritten")     # Unpatched: the merge before build/c10_fix.diff (for comparisons only)
    if case["kind"] == "flow":
        return f"flow_obs {mode} {heap} 0%nat {cb(bool(case.get('probe')) and not is_real(case))}"
    return f"cycle_obs {mode} {heap} 0%nat {cn(target[0])} {cl(op_coq(o, target[1]) for o in case['ops'])}"


def modelled(case):
    if case["kind"] == "cycle" and any(op[0] == "up" for op in case["ops"]):
        return False        # the model keeps no record of received trigger signals: this family is judged by the oracle alone
    return not any(k["t"] == "for" for k in case["kids"])      # the construction of a For body is not modelled


# =========================================================================== what the case says was sent where
INNER = {"MA": {"a": "leaf", "b": "leaf"},
         "MB": {"p": "leaf", "q": "leaf", "x": "leaf"},
         "MC": {"p": "leaf", "q": "leaf", "inner": "macro", "inner/a": "leaf", "inner/b": "leaf"},
         "MD": {"a": "leaf", "b": "leaf"},
         "MF": {"inner": "macro", "inner/a": "leaf", "inner/b": "leaf"},
         "ME": {"r": "leaf", "deep": "macro", "deep/p": "leaf", "deep/q": "leaf", "deep/inner": "macro",
                "deep/inner/a": "leaf", "deep/inner/b": "leaf"}}
INSTR = ("ipb", "ithread", "icproc")


def placements(case):
    """[(path, spec, is composite)] as written in the case"""
    out = []
    if case["kind"] == "flow" and case.get("root_ex"):
        out.append(("/wf", case["root_ex"], True))
    for i, kid in enumerate(case["kids"]):
        base = "/n0" if case.get("parentless") else f"/wf/n{i}"
        if kid.get("ex"):
            out.append((base, kid["ex"], kid["t"] != "leaf"))
        for rel, spec in sorted((kid.get("inner") or {}).items()):
            out.append((base + "/" + rel, spec, INNER[kid["cls"]][rel] == "macro"))
    return out


def effective(case):
    """placements that really put the node on an executor: a live executor instance below a node that is
    shipped across a pickle boundary is dropped by Runnable.__getstate__, instructions survive"""
    pl = sorted(placements(case), key=lambda p: p[0].count("/"))
    eff = []
    for path, spec, comp in pl:
        shipped_above = any(path.startswith(q + "/") and s in BOUNDARY for q, s, c in eff)
        if not shipped_above or spec in INSTR:
            eff.append((path, spec, comp))
    return eff


def merged_composites(case):
    """composites that come back as a copy and are merged (locally or, nested, on the far side)"""
    return [(p, s) for p, s, comp in effective(case) if comp and s in BOUNDARY]


def crossing(case):
    return [(p, s) for p, s, comp in effective(case) if s in BOUNDARY]


def under(path, roots):
    return any(path == r or path.startswith(r + "/") for r in roots)


# =========================================================================== oracle
LOW = ("lock-wf",)     # the signature the recorded finding may explain: reported last


def structure_violations(r, path, out):
    """on the rendered live graph: ownership, liveness + mutuality of every connection, adoption, flags, paths"""
    label, kind, flags, exid, parent_ok, path_ok, detached, chans, kids, starting = r
    if not parent_ok:
        out.append(("adoption", f"{path}: parent is not the composite that holds it", path))
    if path_ok != 1:
        out.append(("path", f"{path}: lexical path {'raises' if path_ok == 0 else path_ok}", path))
    if flags[0]:
        out.append(("left-running", f"{path} is still running", path))
    for row in chans:
        pc, clabel, owner_ok, conns = row[0], row[1], row[2], row[3]
        if not owner_ok:
            out.append(("owner", f"{path}.{clabel}: the channel in the node's panel is owned by another object", path))
        for c in conns:
            if c[0] == "DEAD":
                out.append(("dangling", f"{path}.{clabel} is connected to a channel that is not in any live panel", path))
            elif c[3] != 1:
                out.append(("one-sided", f"{path}.{clabel} -> {c[0]}.{c[2]}: the partner lists this channel {c[3]}x", path))
        if len(row) > 5 and isinstance(row[5], list) and row[5] and row[5][0] == "DEAD":
            out.append(("dangling", f"{path}.{clabel}: value receiver is not a live channel", path))
    for k in kids:
        structure_violations(k, path + "/" + k[0], out)


def violations(case, obs):
    out = []
    if not isinstance(obs, dict):
        return [("crash", f"driver observation {obs}", None)]
    tree = obs["model"][0]
    root_path = "/" + tree[0]
    if case["kind"] == "flow":
        res = obs["res"]
        if res[0] == "err":
            out.append(("raised", f"run() raised {res[1]}", None))
        if res[0] == "future" and res[1] != "ok":
            out.append(("raised", "the future of the root finished with an exception", None))
        ref = obs["ref"]
        if ref[0] != "ok":
            out.append(("crash", f"reference (all-local) run raised {ref[0]}", None))
        if obs["values"] != ref[1]:
            a, b = dict((p, v) for p, v in ref[1]), dict((p, v) for p, v in obs["values"])
            bad = sorted(p for p in set(a) | set(b) if a.get(p) != b.get(p))
            out.append(("wrong-output", f"outputs differ from the all-local run at {bad[:4]}", bad[0] if bad else None))
        if not is_real(case) and obs["calls"] != ref[2]:
            out.append(("not-once", f"function calls {obs['calls']} vs all-local {ref[2]}", None))
        for path, what in obs["lost"]:
            out.append(("lost", f"{path} lost {what}", path))
        if obs["pending"]:
            out.append(("left-running", f"{obs['pending']} job(s) never completed", None))
        for path, label, r in obs["model"][1]:
            if r != "RuntimeError":
                sig = "lock-wf" if path == "/wf" else "lock"
                out.append((sig, f"assignment to input {label} of {path} accepted while it is out", path))
        for a in obs["after"]:
            if a[0] == "pickle" and a[1] != "ok":
                out.append(("after-pickle", f"pickling the workflow after the run raises {a[1]}", None))
            if a[0] == "rerun":
                if a[1] != "ok":
                    out.append(("after-rerun", f"running the workflow again raises {a[1]}", None))
                elif a[2] != ref[1]:
                    out.append(("after-rerun", "the second run's outputs differ from the all-local run", None))
        merged_ok = {p for p, kids in obs["model"][2]}
        for p, kids in obs["model"][2]:
            node_r = find_rendered(tree, root_path, p)
            if node_r is None or node_r[2][1]:
                continue            # the job failed: nothing was merged, the children are still the old ones
            for lab, par_none, det_none, held in kids:
                if not par_none and not held:
                    out.append(("stale-child", f"a child object {lab} that {p} no longer holds still names it as parent", p))
        failed = []
        collect_failed(tree, root_path, failed)
        for p in failed:
            out.append(("failed", f"{p} ended failed", p))
    else:
        log = obs["model"][1]
        x = case["kids"][case["target"]]
        if case.get("rel"):
            x_merges = INNER[x["cls"]][case["rel"]] == "macro" and (x.get("inner") or {}).get(case["rel"]) in BOUNDARY
        else:
            x_merges = x["t"] != "leaf" and x.get("ex") in BOUNDARY
        for sig, text in obs.get("extra", []):
            out.append((sig, text, obs["xpath"]))
        if obs.get("ups") != obs.get("ref_ups"):
            out.append(("raised", f"hand-pushed upstream runs answered {obs.get('ups')}, all-local {obs.get('ref_ups')}",
                        obs["xpath"]))
        for n, (got, want) in enumerate(zip(obs.get("trace", []), obs.get("ref_trace", []))):
            if got[0] != want[0]:
                a, b = dict((p, v) for p, v in want[0]), dict((p, v) for p, v in got[0])
                bad = sorted(p for p in set(a) | set(b) if a.get(p) != b.get(p))
                out.append(("wrong-output", f"after trigger round {n + 1} the outputs differ from the all-local replay at "
                                            f"{bad[:4]}: {[b.get(p) for p in bad[:2]]} vs {[a.get(p) for p in bad[:2]]}", bad[0]))
                break
            if got[1] != want[1]:
                out.append(("not-once", f"after trigger round {n + 1} the functions were called {got[1]}, "
                                        f"all-local replay {want[1]} (fired early / twice / not at all)", obs["xpath"]))
                break
        merged, stuck, k = False, False, 0
        run_before, failed_before = False, False
        for op, r, rec in zip(case["ops"], log, obs["recs"]):
            out_before, running, failed, pending = rec
            low = merged or stuck
            if op[0] in ("set", "oset", "setv"):      # oset: the enclosing macro's input forwards into the driven node's input
                if out_before and r != "RuntimeError":
                    out.append(("lock-merged" if low else "lock",
                                f"assignment to input {op[1]} accepted while the node is out", obs["xpath"]))
                if not out_before and r != "ok":
                    out.append(("resubmit" if stuck else "stuck-lock",
                                f"assignment to input {op[1]} refused ({r}) while no job is out", obs["xpath"]))
            elif op[0] == "run":
                if out_before:
                    if r not in ("RuntimeError", "ReadinessError"):
                        out.append(("double-run", f"run() while out gave {r}", obs["xpath"]))
                elif failed_before or stuck:
                    if r not in ("ReadinessError", "RuntimeError"):
                        out.append(("failed-run", f"run() of a failed node gave {r}", obs["xpath"]))
                elif r not in ("Future", "value"):
                    out.append(("resubmit" if merged else "raised", f"run() raised {r}", obs["xpath"]))
                    stuck = stuck or running
                elif (r == "Future") != (pending > 0):
                    out.append(("raised", f"run() returned {r} with {pending} job(s) out", obs["xpath"]))
            elif op[0] in ("runx", "exec"):      # no readiness gate: the failed flag must not matter, only being out does
                if not out_before and not stuck:
                    if r not in ("Future", "value"):
                        out.append(("raised", f"{op[0]} on an idle node raised {r}", obs["xpath"]))
                    elif (r == "Future") != (pending > 0):
                        out.append(("raised", f"{op[0]} returned {r} with {pending} job(s) out", obs["xpath"]))
            elif op[0] == "complete":
                if out_before:
                    ok, shown, expect = obs["delivered"][k]
                    k += 1
                    if running:
                        out.append(("left-running", "still running after its job completed", obs["xpath"]))
                    if ok and shown != expect:
                        out.append(("stale", f"delivered outputs {shown} do not belong to the inputs shown "
                                             f"(a local run gives {expect})", obs["xpath"]))
                    if not ok and not (isinstance(expect, list) and expect and expect[0] == "raises"):
                        out.append(("lock-merged" if low else "spurious-failure",
                                    "the job failed although a local run on the inputs shown succeeds", obs["xpath"]))
                    if ok and x_merges:
                        merged = True
            failed_before = failed
        for path, what in obs["lost"]:
            out.append(("lost", f"{path} lost {what}", path))
        if obs["running"] and not obs["pending"] and not stuck:
            out.append(("left-running", "the node is running but no job is out", obs["xpath"]))
    sv = []
    structure_violations(tree, root_path, sv)
    if case["kind"] == "cycle" and obs["running"]:
        sv = [v for v in sv if not (v[0] == "left-running" and v[2] == obs["xpath"])]     # judged above
    out.extend(sv)
    out.sort(key=lambda v: v[0] in LOW)
    return out


def find_rendered(r, path, target):
    if path == target:
        return r
    for k in r[8]:
        if target == path + "/" + k[0] or target.startswith(path + "/" + k[0] + "/"):
            return find_rendered(k, path + "/" + k[0], target)
    return None


def collect_failed(r, path, acc):
    if r[2][1]:
        acc.append(path)
    for k in r[8]:
        collect_failed(k, path + "/" + k[0], acc)


def oracle(case, obs):
    v = violations(case, obs)
    if not v:
        return None
    sig, msg, subject = v[0]
    return f"{sig}: {msg} [subject={subject}]"


# =========================================================================== known findings (cause predicates)
def known(case, obs, verdict):
    """the one clause the code still violates: a WORKFLOW that is out on an executor leaves its inputs (its
    children's channels) writable.  Cause predicate: the root is placed on an executor and the accepted
    assignment is to an input of the root."""
    sig = verdict.split(":")[0]
    subject = verdict.rsplit("[subject=", 1)[1].rstrip("]") if "[subject=" in verdict else "None"
    if sig == "lock-wf" and case["kind"] == "flow" and case.get("root_ex") and subject == "/wf":
        return "C10-workflow-inputs-unlocked"
    return None


# =========================================================================== generators
MACRO_ARITY = {"MA": 1, "MB": 2, "MC": 2, "MD": 1, "ME": 2, "MF": 1}
EMU = ["man", "pb", "pb", "ipb"]


def gen_ins(rng, i, m, p_conn=0.6):
    ins = []
    for _ in range(m):
        if i == 0 or rng.random() > p_conn:
            ins.append(["c", rng.randint(0, 50)])
        else:
            ins.append(["n", rng.sample(range(i), min(i, rng.choice([1, 1, 1, 2])))])
    return ins


def gen_kid(rng, i, p_macro, p_ex, p_inner):
    if rng.random() < p_macro:
        cls = rng.choice(["MA", "MA", "MB", "MC", "MC", "MD", "ME", "MF"])
        kid = {"t": "macro", "cls": cls, "ins": gen_ins(rng, i, MACRO_ARITY[cls]), "ex": None, "inner": {}}
        for rel in sorted(INNER[cls]):
            if rng.random() < p_inner:
                kid["inner"][rel] = rng.choice(EMU)
    else:
        m = rng.choice([0, 1, 1, 2, 2, 3]) if i else rng.choice([0, 1, 2])
        chk = m in (1, 2) and rng.random() < 0.3
        kid = {"t": "leaf", "k": rng.randint(0, 99), "ins": gen_ins(rng, i, m), "ex": None}
        if chk:
            kid["chk"] = True
    if rng.random() < p_ex:
        kid["ex"] = rng.choice(EMU)
    return kid


def gen_flow(rng, nmax):
    n = rng.randint(1, nmax)
    p_ex = rng.choice([0.2, 0.5, 0.8])
    p_inner = rng.choice([0.0, 0.0, 0.15, 0.3])
    kids = [gen_kid(rng, i, rng.choice([0.3, 0.5]), p_ex, p_inner) for i in range(n)]
    root = rng.choice([None, None, None, "pb", "ipb", "man"])
    return {"kind": "flow", "kids": kids, "root_ex": root, "order": [rng.randint(0, 5) for _ in range(rng.randint(0, 6))],
            "probe": rng.random() < 0.8}


def input_labels(kid):
    if kid["t"] == "leaf":
        return ["k"] + nodes.ARG[:len(kid["ins"])]
    return C().MACROS[kid["cls"]][1]


def may_fail(kid):
    return (kid["t"] == "leaf" and kid.get("chk")) or (kid["t"] == "macro" and kid["cls"] in ("MD", "ME"))


def gen_cycle(rng):
    parentless = rng.random() < 0.25
    kids, t = [], 0
    if not parentless and rng.random() < 0.6:
        kids.append({"t": "leaf", "k": rng.randint(0, 9), "ins": [["c", rng.randint(0, 20)]], "ex": None})
        t = 1
    x = gen_kid(rng, t, 0.55, 0.0, 0.12)
    if x["t"] == "leaf" and not x["ins"]:
        x["ins"] = gen_ins(rng, t, 1)
    x["ex"] = rng.choice(["pb", "pb", "pb", "ipb", "man", None])
    if x["ex"] not in BOUNDARY:
        x["inner"] = {} if x["t"] == "macro" else None
    if x["t"] == "leaf":
        x.pop("inner", None)
    if parentless:
        x["ins"] = [["c", i[1]] if i[0] == "c" else ["c", rng.randint(0, 20)] for i in x["ins"]]
    kids.append(x)
    if not parentless and rng.random() < 0.6:
        kids.append({"t": "leaf", "k": rng.randint(0, 9), "ins": [["n", [t]]], "ex": None})
    labels = input_labels(x)
    # failing inputs only where the failure is the shipped node's own (a failing child that sits on an executor of
    # its own is swallowed in its callback: C06 / S6, not this property's subject)
    neg_ok = x["ex"] in BOUNDARY and may_fail(x) and not x.get("inner")
    ops = []
    for _ in range(rng.randint(3, 10)):
        r = rng.random()
        if r < 0.35:
            lab = rng.choice(labels)
            v = rng.randint(-4, -1) if (neg_ok and lab != "k" and rng.random() < 0.3) else rng.randint(0, 60)
            ops.append(["set", lab, v])
        elif r < 0.65:
            ops.append(["run"])
        elif r < 0.92:
            ops.append(["complete"])
        else:
            ops.append(["clear"])
    return {"kind": "cycle", "kids": kids, "target": t, "parentless": parentless, "ops": ops}


NESTED = [("MF", "inner", ["x"]), ("ME", "deep", ["x", "y"])]     # (class, nested macro whose inputs are value-linked, labels)


def gen_nested(rng):
    """the driven node is a macro INSIDE an idle macro whose inputs forward straight into it"""
    cls, rel, labels = rng.choice(NESTED)
    spec = rng.choice(["pb", "pb", "pb", "ipb", "man"])
    kid = {"t": "macro", "cls": cls, "ins": [["c", rng.randint(0, 20)] for _ in labels], "ex": None, "inner": {rel: spec}}
    diverge = rng.random() < 0.25        # inner-level assignments while idle (not mirrored upwards)
    ops = []
    for _ in range(rng.randint(3, 9)):
        r = rng.random()
        if r < 0.3:
            ops.append(["oset", rng.choice(labels), rng.randint(0, 60)])
        elif r < 0.45:
            ops.append(["set", rng.choice(labels), rng.randint(0, 60)])
        elif r < 0.7:
            ops.append(["run"])
        else:
            ops.append(["complete"])
    if not diverge:      # keep inner-level assignments to the time the node is out (they must bounce)
        out, kept = False, []
        for op in ops:
            if op[0] == "run":
                out = True
            elif op[0] == "complete":
                out = False
            if op[0] == "set" and not out:
                op = ["oset", op[1], op[2]]
            kept.append(op)
        ops = kept
    return {"kind": "cycle", "kids": [kid], "target": 0, "rel": rel, "parentless": False, "ops": ops}


def gen_failfirst(rng):
    """fail on the executor -> repair the input -> go out again past the readiness gate (execute() or
    run(check_readiness=False); the failed flag is sticky) -> attempts to change the inputs while out -> complete"""
    if rng.random() < 0.7:
        m = rng.choice([1, 2])
        x = {"t": "leaf", "k": rng.randint(0, 9), "chk": True, "ins": [["c", rng.randint(0, 20)] for _ in range(m)],
             "ex": rng.choice(["pb", "pb", "ipb", "man"])}
        lab, labels = "a", ["k"] + nodes.ARG[:m]
    else:
        x = {"t": "macro", "cls": "MD", "ins": [["c", rng.randint(0, 20)]], "ex": rng.choice(["pb", "ipb"]), "inner": {}}
        lab, labels = "x", ["x"]
    redo = rng.choice(["exec", "runx"])
    kids = [x]
    if redo == "runx" and rng.random() < 0.5:      # execute() emits no `ran`: keep it unconnected there
        kids.append({"t": "leaf", "k": rng.randint(0, 9), "ins": [["n", [0]]], "ex": None})
    ops = [["set", lab, -rng.randint(1, 4)], ["run"], ["complete"], ["set", lab, rng.randint(0, 40)], [redo]]
    for _ in range(rng.randint(1, 3)):
        r = rng.random()
        ops.append([rng.choice(["set", "setv"]), rng.choice(labels), rng.randint(0, 60)] if r < 0.75 else ["run"])
    ops.append(["complete"])
    if rng.random() < 0.5:
        ops += [[rng.choice(["set", "setv"]), rng.choice(labels), rng.randint(0, 60)]]
        if rng.random() < 0.5:
            ops += [["clear"], ["run"], ["complete"]]
    return {"kind": "cycle", "kids": kids, "target": 0, "parentless": False, "ops": ops}


def gen_fanin(rng):
    """re-use after the merge: X waits for TWO upstream siblings (accumulate_and_run), goes out, comes back, and is
    triggered again by hand-pushed runs of the two siblings (in any order, possibly one of them twice)"""
    r = rng.random()
    if r < 0.75:
        cls = rng.choice(["MB", "MC", "ME"])
        x = {"t": "macro", "cls": cls, "ins": [["n", [0]], ["n", [1]]], "ex": None, "inner": {}}
    else:
        x = {"t": "leaf", "k": rng.randint(0, 9), "ins": [["n", [0]], ["n", [1]]], "ex": None}
    x["ex"] = rng.choice(["pb", "pb", "pb", "ipb", "man", None])
    kids = [{"t": "leaf", "k": rng.randint(0, 9), "ins": [["c", rng.randint(0, 20)]], "ex": None},
            {"t": "leaf", "k": rng.randint(0, 9), "ins": [["c", rng.randint(0, 20)]], "ex": None}, x]
    if rng.random() < 0.6:
        kids.append({"t": "leaf", "k": rng.randint(0, 9), "ins": [["n", [2]]], "ex": None})
    ops = []
    for _ in range(rng.randint(2, 3)):
        first = rng.choice([0, 1])
        seq = [first] * rng.choice([1, 1, 2]) + [1 - first]
        ops += [["up", i, rng.randint(0, 40)] for i in seq] + [["complete"]]
    return {"kind": "cycle", "kids": kids, "target": 2, "parentless": False, "ops": ops}


def enumerate_small():
    """sender s -> X -> receiver t with X a leaf / macro / nested macro, the three nodes, one inner node and the
    root independently local / manual / pickle boundary, every completion order of the (at most three) jobs"""
    cases = []
    for xk in ({"t": "leaf", "k": 2, "ins": [["n", [0]]]}, {"t": "macro", "cls": "MA", "ins": [["n", [0]]]},
               {"t": "macro", "cls": "MC", "ins": [["n", [0]], ["c", 2]]}):
        inner_opts = [None] if xk["t"] == "leaf" else [None, "pb", "man"]
        rel = {"MA": "b", "MC": "inner"}.get(xk.get("cls"))
        for sx, xx, tx, ix, rx in itertools.product([None, "pb"], [None, "man", "pb", "ipb"], [None, "pb"], inner_opts,
                                                     [None, "pb"]):
            njobs = sum(1 for e in (sx, xx, tx, ix, rx) if e)
            for order in ([[0]] if njobs <= 1 else [[0, 0], [1, 0], [1, 1]]):
                x = dict(xk, ex=xx)
                if xk["t"] == "macro":
                    x["inner"] = {rel: ix} if ix else {}
                cases.append({"kind": "flow", "kids": [{"t": "leaf", "k": 1, "ins": [["c", 3]], "ex": sx}, x,
                                                       {"t": "leaf", "k": 5, "ins": [["n", [1]], ["n", [0, 1]]], "ex": tx}],
                              "root_ex": rx, "order": order, "probe": True})
    return cases


def special_cases(ctx):
    """For nodes across the boundary, follow-ups on the merged graph, real pools"""
    base = [{"t": "leaf", "k": 1, "ins": [["c", 3]], "ex": None},
            {"t": "macro", "cls": "MA", "ins": [["n", [0]]], "ex": "pb", "inner": {}},
            {"t": "leaf", "k": 5, "ins": [["n", [1]]], "ex": None}]
    out = [{"kind": "flow", "kids": base, "root_ex": None, "order": [], "probe": True, "after": ["pickle"]},
           {"kind": "flow", "kids": base, "root_ex": None, "order": [], "probe": True, "after": ["rerun"]},
           {"kind": "flow", "kids": [dict(base[0]), dict(base[1], ex="man"), dict(base[2])], "root_ex": None, "order": [],
            "probe": True, "after": ["pickle", "rerun"]},
           {"kind": "flow", "kids": [dict(base[0], ex="pb"), dict(base[2], ins=[["n", [0]]], ex="pb")], "root_ex": None,
            "order": [], "probe": True, "after": ["pickle", "rerun"]}]
    for ex in ("pb", "man", None):
        out.append({"kind": "flow", "kids": [{"t": "leaf", "fn": "list", "k": 1, "ins": [["c", 3]], "ex": None},
                                             {"t": "for", "k": 4, "ins": [["n", [0]]], "ex": ex},
                                             {"t": "leaf", "fn": "sum", "k": 2, "ins": [["n", [1]]], "ex": None}],
                    "root_ex": None, "order": [], "probe": False})
    reals = ["thread", "cproc", "icproc"] if ctx.quick else ["thread", "proc", "cproc", "ithread", "icproc"]
    for spec in reals:
        out.append({"kind": "flow", "kids": [dict(base[0]), dict(base[1], ex=spec), dict(base[2])], "root_ex": None,
                    "order": [], "probe": False})
    if not ctx.quick:
        for spec in ("thread", "proc", "cproc", "icproc"):
            out.append({"kind": "flow", "kids": [dict(base[0], ex=spec), dict(base[1], ex=None), dict(base[2], ex=spec)],
                        "root_ex": None, "order": [], "probe": False})
            out.append({"kind": "flow", "kids": [dict(base[0]), dict(base[1], ex=None, cls="MC", ins=[["n", [0]], ["c", 1]],
                                                                     inner={"inner": spec}), dict(base[2])],
                        "root_ex": None, "order": [], "probe": False})
            out.append({"kind": "flow", "kids": [dict(base[0]), dict(base[1], ex=None), dict(base[2])], "root_ex": spec,
                        "order": [], "probe": False})
    return out


def generate(ctx):
    rng = ctx.rng
    out = special_cases(ctx)
    for _ in range(ctx.n(260, 2500)):
        out.append(gen_flow(rng, rng.choice([2, 3, 4]) if ctx.quick else rng.choice([2, 3, 4, 5])))
    for _ in range(ctx.n(260, 2500)):
        out.append(gen_cycle(rng))
    for _ in range(ctx.n(120, 1200)):
        out.append(gen_nested(rng))
    for _ in range(ctx.n(80, 800)):
        out.append(gen_failfirst(rng))
    for _ in range(ctx.n(60, 600)):
        out.append(gen_fanin(rng))
    if not ctx.quick:
        out.extend(enumerate_small())
    return out


def corpus(ctx):
    out = []
    for p in sorted((lib.VERIF / "corpus" / PROP).glob("*.json")):
        out.extend(json.loads(p.read_text()))
    return out


EXHAUSTIVE = {"quick": False, "thorough": True}


def nontrivial(case, obs):
    if crossing(case):
        return True
    if case["kind"] == "flow":
        return bool(case.get("probe")) and bool(effective(case))
    return any(o[0] == "set" for o in case["ops"]) and bool(effective(case))


def key(case):
    return {k: v for k, v in case.items() if not k.startswith("_")}


def shrink_candidates(case):
    def clean(c):
        return {k: v for k, v in c.items() if not k.startswith("_")}
    case = clean(case)
    if case["kind"] == "cycle":
        ops = case["ops"]
        for i in range(len(ops)):
            yield dict(case, ops=ops[:i] + ops[i + 1:])
        x = case["kids"][case["target"]]
        if x.get("inner"):
            for rel in x["inner"]:
                kids = [dict(k) for k in case["kids"]]
                kids[case["target"]] = dict(x, inner={r: s for r, s in x["inner"].items() if r != rel})
                yield dict(case, kids=kids)
        if len(case["kids"]) > case["target"] + 1:
            yield dict(case, kids=case["kids"][:-1])
        return
    kids = case["kids"]
    n = len(kids)
    used = {u for k in kids for inp in k["ins"] if inp[0] == "n" for u in inp[1]}
    for d in reversed(range(n)):
        if d not in used and n > 1:
            new = []
            for i, k in enumerate(kids):
                if i == d:
                    continue
                ins = [["n", [u - (u > d) for u in inp[1]]] if inp[0] == "n" else inp for inp in k["ins"]]
                new.append(dict(k, ins=ins))
            yield dict(case, kids=new)
    if case.get("root_ex"):
        yield dict(case, root_ex=None)
    if case.get("after"):
        yield dict(case, after=[])
    for i, k in enumerate(kids):
        if k.get("ex"):
            new = [dict(x) for x in kids]
            new[i]["ex"] = None
            yield dict(case, kids=new)
        for rel in (k.get("inner") or {}):
            new = [dict(x) for x in kids]
            new[i]["inner"] = {r: s for r, s in k["inner"].items() if r != rel}
            yield dict(case, kids=new)
        for j, inp in enumerate(k["ins"]):
            new = [dict(x, ins=[list(y) for y in x["ins"]]) for x in kids]
            if inp[0] == "n" and len(inp[1]) > 1:
                new[i]["ins"][j] = ["n", inp[1][:-1]]
                yield dict(case, kids=new)
            elif inp[0] == "n":
                new[i]["ins"][j] = ["c", 1]
                yield dict(case, kids=new)
    if any(case.get("order", [])):
        yield dict(case, order=[])


def distribution(results):
    import collections
    d = collections.Counter()
    for c, enc, v, o in results:
        d[c["kind"]] += 1
        for p, s, comp in effective(c):
            d[f"sent:{'composite' if comp else 'leaf'}:{s}"] += 1
        for p, s in merged_composites(c):
            d["merged:" + ("root" if p == "/wf" else "nested" if p.count("/") > 2 else "child" if p.count("/") == 2 else "parentless")] += 1
        if c["kind"] == "cycle":
            d["cycle_ops"] += len(c["ops"])
        if v:
            d["oracle:" + v.split(":")[0]] += 1
        if model_term(c) is None:
            d["not_modelled"] += 1
    return dict(sorted(d.items()))
