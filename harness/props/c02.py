"""C02 -- any-of / all-of triggers fire exactly once per round; hand-wired flows follow the
plain queue interpretation.

Two case families:
  trig : a history of arrivals / bare calls / connects / disconnects / resets at a real
         AccumulatingInputSignal (owner = a function node; "fired" = its function was
         called), compared with Trig.trun; oracle = round completeness over IDENTITIES.
  flow : a hand-wired signal graph over function, comparison and If nodes inside a
         Workflow(automate_execution=False), compared with Flow.exec_run (the code-shaped
         loop with caches); oracle = a small independent queue interpreter in python.
"""
from __future__ import annotations

import signal as _signal

from harness import lib, nodes
from harness.lib import cb, cl, cn, cs, cz, copt

PROP = "C02"
IMPORTS = "Base Trig Flow"
FUEL = 600
RULE = ("trig: histories of 4-14 ops over 4 emitters (two of them may share a scoped label); flow: generated signal "
        "graphs = forward run/accumulate edges over 2-7 nodes + optional If branch + optional terminating while-loop "
        "gadget (body>>cond>>If, If.true>>body), data edges with constants / missing data / self edges. Non-trivial: a "
        "trig history with >=2 connected emitters and >=1 fire, or a flow that executed >=3 node runs; distinct by content.")
TRUSTED = ["harness-side python queue interpreter used as the independent oracle for flows"]
ASSUMPTIONS = ["all children local and no node function raises (failures: C06; executors: C01/C10)",
               "sibling labels unique inside a parent (C13) so that scoped labels identify emitters; the parentless "
               "equal-label case is known finding S11"]

LABELS = ["a", "b", "c", "a"]      # emitters 0 and 3 share the key a__ran when parentless


# =========================================================================== trig family
def gen_trig(rng, allow_clash):
    ops = []
    n = rng.randint(4, 14)
    ems = [0, 1, 2, 3] if allow_clash else [0, 1, 2]
    for _ in range(n):
        r = rng.random()
        e = rng.choice(ems)
        if r < 0.45:
            ops.append(["arrive", e])
        elif r < 0.55:
            ops.append(["bare"])
        elif r < 0.8:
            ops.append(["connect", e])
        elif r < 0.90:
            ops.append(["disconnect", e])
        elif r < 0.95:
            ops.append(["reset"])
        else:
            ops.append(["give"])       # the owner's missing input is supplied: from now on its run succeeds
    # the owner starts without data half of the time: firing then raises ReadinessError inside the callback
    return {"fam": "trig", "ops": ops, "needy": rng.random() < 0.5}


def run_trig(case):
    from pyiron_workflow.mixin.run import ReadinessError
    nodes.reset()
    if case.get("needy"):
        target = nodes.Lin1(label="target", tag=99, k=1)      # input `a` holds no data: run() is refused
    else:
        target = nodes.Lin0(label="target", tag=99, k=1)
    target.use_cache = False
    target.recovery = None
    fired = []
    real_run = target.run

    def counting_run(*a, **k):          # the trigger's callback is looked up by name on the owner
        fired.append(1)
        return real_run(*a, **k)
    target.run = counting_run
    ems = [nodes.Lin0(label=LABELS[i], tag=i, k=i) for i in range(4)]
    acc = target.signals.input.accumulate_and_run
    fires = []
    sizes = []
    for op in case["ops"]:
        before = len(fired)
        try:
            if op[0] == "arrive":
                acc(ems[op[1]].signals.output.ran)
            elif op[0] == "bare":
                acc()
            elif op[0] == "connect":
                acc.connect(ems[op[1]].signals.output.ran)
            elif op[0] == "disconnect":
                acc.disconnect(ems[op[1]].signals.output.ran)
            elif op[0] == "reset":
                acc.reset()
            elif op[0] == "give":
                if case.get("needy"):
                    target.inputs.a.value = 5
        except ReadinessError:
            pass                        # the owner refused to run; the trigger did fire
        except Exception as e:
            return ["EXC", type(e).__name__]
        fires.append(len(fired) > before)
        sizes.append(len(acc.received_signals))
    idx = {id(e.signals.output.ran): i for i, e in enumerate(ems)}
    return [[[f, n] for f, n in zip(fires, sizes)], [idx[id(c)] for c in acc.connections]]


def trig_term(case):
    def em(i):
        return f"{{| e_id := {cn(i)}; e_key := {cs(LABELS[i] + '__ran')} |}}"
    ops = []
    for op in case["ops"]:
        if op[0] == "arrive":
            ops.append(f"Arrive {em(op[1])}")
        elif op[0] == "bare":
            ops.append("Bare")
        elif op[0] == "connect":
            ops.append(f"Connect {em(op[1])}")
        elif op[0] == "disconnect":
            ops.append(f"Disconnect {em(op[1])}")
        elif op[0] == "reset":
            ops.append("Reset")
        # "give" touches the owner only, not the trigger
    return f"obs_trun_steps {cl(ops)}"


def trig_oracle(case, obs):
    if obs and obs[0] == "EXC":
        return f"crash: trigger operation raised {obs[1]}"
    steps = obs[0]
    conns, arr = [], set()
    for op, (fired, size) in zip(case["ops"], steps):
        if fired and size != 0:
            return "not-fresh: the all-of trigger fired but did not start a fresh round (received signals were kept)"
        expect = False
        if op[0] == "arrive":
            arr.add(op[1])
            expect = all(c in arr for c in conns)
        elif op[0] == "bare":
            expect = all(c in arr for c in conns)
        elif op[0] == "connect":
            if op[1] not in conns:
                conns.insert(0, op[1])
        elif op[0] == "disconnect":
            if op[1] in conns:
                conns.remove(op[1])
        elif op[0] == "reset":
            arr = set()
        if expect:
            arr = set()
        if fired and not expect:
            return "early-fire: the all-of trigger fired although a connected emitter has not arrived in this round"
        if expect and not fired:
            return "missed-fire: the round was complete but the all-of trigger did not fire"
    return None


def trig_view(case, obs):
    """the model has no step for "give": drop those entries"""
    if not (isinstance(obs, list) and obs and isinstance(obs[0], list)):
        return obs
    return [[st for op, st in zip(case["ops"], obs[0]) if op[0] != "give"], obs[1]]


def trig_clash(case):
    """cause predicate of S11: both equally-labelled emitters take part in the history"""
    used = {op[1] for op in case["ops"] if len(op) > 1}
    return 0 in used and 3 in used


# =========================================================================== flow family
# node: {"kind": ["lin",k]|["lt",bound]|["if"], "ins":[{"init": z|None, "conns":[u..]}], "sig": {"ran":[[m,"run"|"acc"],..], "true":[..], "false":[..]}}
def gen_flow(rng):
    n = rng.randint(2, 6)
    ns = []
    for i in range(n):
        m = rng.choice([0, 1, 1, 2, 2, 3])
        ins = []
        for _ in range(m):
            r = rng.random()
            conns = []
            if r < 0.65 and n > 1:
                conns = rng.sample(range(n), rng.choice([1, 1, 2]))
            # an unconnected child input is part of the workflow's own IO, whose readiness gate would
            # refuse the whole run: missing data is only generated on connected inputs
            init = rng.randint(0, 30) if (not conns or rng.random() < 0.55) else None
            ins.append({"init": init, "conns": conns})
        ns.append({"kind": ["lin", rng.randint(1, 60)], "ins": ins, "sig": {"ran": []}})
    # forward signal edges (acyclic): i -> j, i < j
    for j in range(1, n):
        srcs = rng.sample(range(j), min(j, rng.choice([0, 1, 1, 2, 3])))
        if not srcs:
            continue
        mode = "acc" if (len(srcs) >= 2 and rng.random() < 0.6) or rng.random() < 0.15 else "run"
        for s in srcs:
            ns[s]["sig"]["ran"].insert(0, [j, mode if rng.random() < 0.9 else ("run" if mode == "acc" else "acc")])
    starting = [i for i in range(n) if not any(t[0] == i for nd in ns for lst in nd["sig"].values() for t in lst)]
    if rng.random() < 0.2 and len(starting) > 1:
        rng.shuffle(starting)
    # optional If branch hanging off a random node
    if rng.random() < 0.5:
        src = rng.randrange(n)
        c, f, ta, fa = n, n + 1, n + 2, n + 3
        ns.append({"kind": ["lt", rng.randint(0, 200)], "ins": [{"init": None, "conns": [src]}], "sig": {"ran": [[f, "run"]]}})
        ns.append({"kind": ["if"], "ins": [{"init": None, "conns": [c]}],
                   "sig": {"ran": [], "true": [[ta, "run"]], "false": [[fa, "run"]]}})
        ns.append({"kind": ["lin", 7], "ins": [{"init": 1, "conns": [src]}], "sig": {"ran": []}})
        ns.append({"kind": ["lin", 9], "ins": [{"init": 2, "conns": []}], "sig": {"ran": []}})
        ns[src]["sig"]["ran"].insert(rng.randint(0, len(ns[src]["sig"]["ran"])), [c, "run"])
        n += 4
    # optional while loop gadget: body (x <- k + x) >> cond (x < bound) >> If ; If.true >> body ; If.false >> exit
    if rng.random() < 0.6:
        b, c, f, lg, ex = n, n + 1, n + 2, n + 3, n + 4
        step, bound = rng.randint(1, 5), rng.randint(0, 14)
        ns.append({"kind": ["lin", step], "ins": [{"init": rng.choice([0, 0, 3]), "conns": [b]}],
                   "sig": {"ran": [[c, "run"]] + ([[lg, "run"]] if rng.random() < 0.5 else [])}})
        ns.append({"kind": ["lt", bound], "ins": [{"init": None, "conns": [b]}], "sig": {"ran": [[f, "run"]]}})
        ns.append({"kind": ["if"], "ins": [{"init": None, "conns": [c]}],
                   "sig": {"ran": [], "true": [[b, "run"]], "false": [[ex, "run"]]}})
        # a logger with a constant input (repeated triggers with equal inputs -> cache hits) or following the body
        ns.append({"kind": ["lin", 11], "ins": [{"init": 5, "conns": ([b] if rng.random() < 0.5 else [])}], "sig": {"ran": []}})
        ns.append({"kind": ["lin", 13], "ins": [{"init": None, "conns": [b]}], "sig": {"ran": []}})
        if rng.random() < 0.5 and n > 0:
            trig = rng.randrange(n)
            ns[trig]["sig"]["ran"].append([b, "run"])
        else:
            starting.append(b)
    # optional fan-in switch: two starters both trigger one If; between the two triggers a node runs that flips the If's
    # condition (its newest data connection) -- the first evaluation's branch signal is still queued at that moment
    if rng.random() < 0.15:
        a, b, c, f, ta, fa = n, n + 1, n + 2, n + 3, n + 4, n + 5
        first = rng.choice([0, 1])
        ns.append({"kind": ["lin", 3], "ins": [{"init": 1, "conns": []}], "sig": {"ran": [[f, "run"], [c, "run"]]}})
        ns.append({"kind": ["lin", 4], "ins": [{"init": 2, "conns": []}], "sig": {"ran": [[f, "run"]]}})
        ns.append({"kind": ["lt", 5], "ins": [{"init": 9 if first else 2, "conns": []}], "sig": {"ran": []}})
        ns.append({"kind": ["if"], "ins": [{"init": first, "conns": [c]}],
                   "sig": {"ran": [], "true": [[ta, "run"]], "false": [[fa, "run"]]}})
        ns.append({"kind": ["lin", 17], "ins": [{"init": 1, "conns": []}], "sig": {"ran": []}})
        ns.append({"kind": ["lin", 19], "ins": [{"init": 2, "conns": []}], "sig": {"ran": []}})
        starting += [a, b]
        n += 6
    return {"fam": "flow", "nodes": ns, "starting": starting, "again": rng.random() < 0.35}


class _Timeout(BaseException):   # BaseException: the library's `except Exception` must not swallow it
    pass


def _alarm(signum, frame):
    raise _Timeout()


from pyiron_workflow.nodes.function import as_function_node  # noqa: E402


@as_function_node("y")
def Lt(tag, bound, a):
    nodes.CALLS.append((tag, [a]))
    return 1 if a < bound else 0


def build_flow(case):
    from pyiron_workflow import Workflow
    from pyiron_workflow.nodes.standard import If
    wf = Workflow("wf", automate_execution=False)
    wf.use_cache = False
    ch = []
    for i, nd in enumerate(case["nodes"]):
        k = nd["kind"]
        if k[0] == "lin":
            kw = {"tag": i, "k": k[1]}
            for j, inp in enumerate(nd["ins"]):
                if inp["init"] is not None:
                    kw[nodes.ARG[j]] = inp["init"]
            node = nodes.LIN[len(nd["ins"])](label=f"n{i}", **kw)
        elif k[0] == "lt":
            kw = {"tag": i, "bound": k[1]}
            if nd["ins"][0]["init"] is not None:
                kw["a"] = nd["ins"][0]["init"]
            node = Lt(label=f"n{i}", **kw)
        else:
            node = If(label=f"n{i}")
            if nd["ins"][0]["init"] is not None:
                node.inputs.condition.value = nd["ins"][0]["init"]
        wf.add_child(node)
        ch.append(node)
    for i, nd in enumerate(case["nodes"]):
        names = ["condition"] if nd["kind"][0] == "if" else nodes.ARG
        outname = lambda u: "truth" if case["nodes"][u]["kind"][0] == "if" else "y"
        for j, inp in enumerate(nd["ins"]):
            for u in reversed(inp["conns"]):
                ch[i].inputs[names[j]].connect(ch[u].outputs[outname(u)])
        for sname, lst in nd["sig"].items():
            out = ch[i].signals.output[sname]
            for (m, mode) in reversed(lst):
                tgt = ch[m].signals.input.run if mode == "run" else ch[m].signals.input.accumulate_and_run
                out.connect(tgt)
    wf.starting_nodes = [ch[i] for i in case["starting"]]
    return wf, ch


def _slot(v):
    from pyiron_workflow.channels import NOT_DATA
    if v is NOT_DATA:
        return "nd"
    return int(v)


def _one_run(wf, ch):
    from pyiron_workflow.mixin.run import ReadinessError
    from pyiron_workflow.nodes.composite import FailedChildError
    nodes.CALLS.clear()
    idx = {c.label: i for i, c in enumerate(ch)}
    tag, errc = "finished", 0
    try:
        wf.run()
    except ReadinessError:
        tag = "start-refused"
    except FailedChildError as e:
        errc = 1 if e.__cause__ is not None else 2
    finally:
        wf.failed = False
        wf.running = False
    prov = [idx[l] for l in wf.provenance_by_execution]
    outs = [_slot(c.outputs[c.outputs.labels[0]].value) for c in ch]
    calls = [[t, [int(a) for a in args]] for (t, args) in nodes.CALLS]
    return [[tag, prov, outs, errc], calls]


def run_flow(case):
    nodes.reset()
    wf, ch = build_flow(case)
    old = _signal.signal(_signal.SIGALRM, _alarm)
    _signal.alarm(10)
    try:
        res = [_one_run(wf, ch)]
        if case["again"] and res[0][0][0] == "finished":
            res.append(_one_run(wf, ch))
        return res
    except _Timeout:
        return "timeout"
    finally:
        _signal.alarm(0)
        _signal.signal(_signal.SIGALRM, old)


def flow_coq(case):
    ns = []
    for nd in case["nodes"]:
        k = nd["kind"]
        kind = f"KLin {cz(k[1])}" if k[0] == "lin" else f"KLt {cz(k[1])}" if k[0] == "lt" else "KIf"
        ins = cl(f"{{| fi_init := {copt(i['init'], cz)}; fi_conns := {cl(cn(u) for u in i['conns'])} |}}" for i in nd["ins"])
        sg = cl("(O" + s.capitalize() + ", " + cl(f"({cn(m)}, I{mode.capitalize()})" for m, mode in lst) + ")"
                for s, lst in nd["sig"].items())
        ns.append(f"{{| f_kind := {kind}; f_ins := {ins}; f_sig := {sg} |}}")
    return cl(ns)


def flow_term(case):
    return f"obs_flow {flow_coq(case)} {cn(FUEL)} {cl(cn(i) for i in case['starting'])} {cb(case['again'])}"


# ---- independent plain queue interpreter (the oracle's reference) ---------------------------
def py_queue(case, state=None):
    ns = case["nodes"]
    n = len(ns)
    M = nodes.M
    st = state or {"out": [None] * n, "own": [[i["init"] for i in nd["ins"]] for nd in ns], "recv": [set() for _ in ns]}
    st["recv"] = [set() for _ in ns]        # every run() starts fresh rounds at all all-of triggers
    prov, q, errs = [], [], set()
    accs = [{(m, s) for m, nd in enumerate(ns) for s, lst in nd["sig"].items() for t in lst if t == [i, "acc"]}
            for i in range(n)]

    def run(i):
        nd = ns[i]
        vals = []
        for j, inp in enumerate(nd["ins"]):
            v = st["own"][i][j]
            for u in inp["conns"]:
                if st["out"][u] is not None:
                    v = st["out"][u]
                    break
            st["own"][i][j] = v
            vals.append(v)
        if any(v is None for v in vals):
            return False
        k = nd["kind"]
        if k[0] == "lin":
            r = (k[1] + sum((j + 1) * a for j, a in enumerate(vals))) % M
        elif k[0] == "lt":
            r = 1 if vals[0] < k[1] else 0
        else:
            r = 1 if vals[0] != 0 else 0
        st["out"][i] = r
        prov.append(i)
        sigs = ["ran"] + ((["true"] if r else ["false"]) if k[0] == "if" else [])
        for s in sigs:
            for t in nd["sig"].get(s, []):
                q.append(((i, s), (t[0], t[1])))
        return True
    for s in case["starting"]:
        if not run(s):
            return "start-refused", prov, st["out"], 0, st
    steps = 0
    while q:
        steps += 1
        if steps > 5000:
            return "diverges", prov, st["out"], 0, st
        (em, (m, mode)) = q.pop(0)
        if mode == "run":
            if not run(m):
                errs.add((m, mode))
        else:
            st["recv"][m].add(em)
            if accs[m] <= st["recv"][m]:
                st["recv"][m] = set()
                if not run(m):
                    errs.add((m, mode))
    return "finished", prov, st["out"], min(2, len(errs)), st


def flow_oracle(case, obs):
    if obs == "timeout":
        return "diverges: the flow did not terminate within 20 s"
    state = None
    for k, one in enumerate(obs):
        (tag, prov, outs, errc), calls = one
        etag, eprov, eout, eerr, state = py_queue(case, state)
        eout = ["nd" if v is None else v for v in eout]
        if tag != etag or errc != eerr:
            return f"wrong-outcome: run {k} ended {tag}/{errc} errors, the queue interpretation gives {etag}/{eerr}"
        if prov != eprov:
            return f"wrong-order: run {k} executed {prov}, the queue interpretation prescribes {eprov}"
        if outs != eout:
            return f"wrong-value: run {k} outputs differ from the queue interpretation"
    return None


# =========================================================================== framework API
# ---- sugar family: the spellings that wire triggers (`>>`, `<<`, with nodes, macros, tuples, channels) -------------
from pyiron_workflow.nodes.macro import as_macro_node as _as_macro_node  # noqa: E402


@_as_macro_node("out")
def SugarMacro(self, x):
    self.p = nodes.Lin1(tag=-1, k=1, a=x)
    self.q = nodes.Lin1(tag=-2, k=2, a=self.p)
    return self.q


SUGAR_KINDS = ["fn", "macro"]


def gen_sugar(rng):
    n = rng.choice([1, 1, 2, 3])
    return {"fam": "sugar", "op": rng.choice(["lshift", "lshift", "rshift"]),
            "operands": [rng.choice(SUGAR_KINDS) for _ in range(n)],
            "wrap": rng.choice(["tuple", "bare"]) if n == 1 else "tuple",
            "as_channel": rng.random() < 0.2, "target": rng.choice(SUGAR_KINDS)}


def run_sugar(case):
    from pyiron_workflow import Workflow
    wf = Workflow("s", automate_execution=False)
    mk = lambda kind, lab: (nodes.Lin1(label=lab, tag=0, k=0, a=1) if kind == "fn" else SugarMacro(label=lab, x=1))   # noqa: E731
    ups = []
    for i, kind in enumerate(case["operands"]):
        u = mk(kind, f"u{i}")
        wf.add_child(u)
        ups.append(u)
    t = mk(case["target"], "t")
    wf.add_child(t)
    if case["op"] == "lshift":
        objs = [u.signals.output.ran for u in ups] if case["as_channel"] else ups
        arg = objs[0] if case["wrap"] == "bare" else tuple(objs)
        (t.signals.input.accumulate_and_run if case["as_channel"] else t).__lshift__(arg)
        got = sorted([c.owner.full_label, c.label] for c in t.signals.input.accumulate_and_run.connections)
        other = len(t.signals.input.run.connections)
    else:
        # u0 >> u1 >> ... >> t
        chain = ups + [t]
        for a, b in zip(chain, chain[1:]):
            a >> b
        got = sorted([c.owner.full_label, c.label] for c in t.signals.input.run.connections)
        other = len(t.signals.input.accumulate_and_run.connections)
    return {"got": got, "other": other, "ups": [u.full_label for u in ups]}


def sugar_oracle(case, o):
    if not isinstance(o, dict):
        return f"crash: {o}"
    exp = sorted([u, "ran"] for u in (o["ups"] if case["op"] == "lshift" else o["ups"][-1:]))
    if o["got"] != exp:
        return (f"sugar: `{'<<' if case['op'] == 'lshift' else '>>'}` wired the trigger to {o['got']}, the operands' own "
                f"completion signals are {exp}")
    if o["other"]:
        return "sugar: the other trigger flavour got connections too"
    return None


def generate(ctx):
    rng = ctx.rng
    out = [gen_trig(rng, allow_clash=(rng.random() < 0.15)) for _ in range(ctx.n(500, 6000))]
    out += [gen_flow(rng) for _ in range(ctx.n(300, 4000))]
    out += [gen_sugar(rng) for _ in range(ctx.n(40, 300))]
    if not ctx.quick:
        out += enumerate_trig()
    return out


def enumerate_trig():
    """all histories of length <=5 over 2 emitters (exhaustive part of the thorough tier)"""
    import itertools
    alphabet = [["arrive", 0], ["arrive", 1], ["bare"], ["connect", 0], ["connect", 1], ["disconnect", 0], ["reset"]]
    cases = []
    for n in range(1, 6):
        for ops in itertools.product(alphabet, repeat=n):
            cases.append({"fam": "trig", "ops": [list(o) for o in ops]})
    return cases


def corpus(ctx):
    import json
    out = []
    for p in sorted((lib.VERIF / "corpus" / PROP).glob("*.json")):
        out.extend(json.loads(p.read_text()))
    return out


def run_impl(case):
    if case["fam"] == "sugar":
        return run_sugar(case)
    return run_trig(case) if case["fam"] == "trig" else run_flow(case)


def model_term(case):
    if case["fam"] == "sugar":
        return None         # wiring sugar: oracle only (what gets wired is then covered by the trig/flow models)
    return trig_term(case) if case["fam"] == "trig" else flow_term(case)


def model_view(case, obs):
    return trig_view(case, obs) if case["fam"] == "trig" else obs


def oracle(case, obs):
    if case["fam"] == "sugar":
        return sugar_oracle(case, obs)
    return trig_oracle(case, obs) if case["fam"] == "trig" else flow_oracle(case, obs)


def known(case, obs, verdict):
    if case["fam"] == "trig" and verdict.startswith(("early-fire", "missed-fire")) and trig_clash(case):
        return "S11-equal-scoped-labels"
    return None


def nontrivial(case, obs):
    if case["fam"] == "sugar":
        return "macro" in case["operands"]
    if case["fam"] == "trig":
        return (isinstance(obs, list) and obs and isinstance(obs[0], list) and any(f for f, n in obs[0])
                and sum(1 for o in case["ops"] if o[0] == "connect") >= 2)
    return isinstance(obs, list) and len(obs[0][0][1]) >= 3


def key(case):
    return case


def shrink_candidates(case):
    if case["fam"] == "sugar":
        return
    if case["fam"] == "trig":
        ops = case["ops"]
        for i in range(len(ops)):
            yield dict(case, ops=ops[:i] + ops[i + 1:])
    else:
        if case["again"]:
            yield dict(case, again=False)
        ns = case["nodes"]
        for i, nd in enumerate(ns):
            for s, lst in nd["sig"].items():
                for j in range(len(lst)):
                    new = [dict(x, sig={a: list(b) for a, b in x["sig"].items()}) for x in ns]
                    del new[i]["sig"][s][j]
                    yield dict(case, nodes=new)


def distribution(results):
    d = {"trig": 0, "flow": 0, "sugar": 0, "trig_fires": 0, "flow_runs_total": 0, "flow_cache_hits": 0, "flow_start_refused": 0,
         "flow_with_errors": 0, "flow_loops": 0}
    for c, enc, v, o in results:
        d[c["fam"]] += 1
        if c["fam"] == "trig" and isinstance(o, list) and o and isinstance(o[0], list):
            d["trig_fires"] += sum(1 for f, n in o[0] if f)
        elif c["fam"] == "flow" and isinstance(o, list):
            for (tag, prov, outs, errc), calls in o:
                d["flow_runs_total"] += len(prov)
                users = [i for i in prov if c["nodes"][i]["kind"][0] != "if"]
                d["flow_cache_hits"] += len(users) - len(calls)
                d["flow_start_refused"] += tag == "start-refused"
                d["flow_with_errors"] += errc > 0
                d["flow_loops"] += len(prov) != len(set(prov))
    return d

