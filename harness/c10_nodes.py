"""Module-level node classes and executors for C10 (must be importable as `harness.c10_nodes`
on the far side of a process boundary: cloudpickle/pickle import macro classes by module path).

* macro library MA..ME over the shared Lin/Chk function nodes (harness.nodes)
* PickleBoundaryExecutor: like nodes.ManualExecutor (jobs completed one by one by the driver, from the
  parent's poll point, same thread) but the submitted callable crosses cloudpickle AT SUBMIT and the
  result (or the exception) crosses cloudpickle on the way back -- the serialisation contract of a
  process pool without the processes.
* get_pbe(i): module-level constructor so that an executor can be given as construction
  instructions `(get_pbe, (i,), {})` and still be driven by the schedule.
"""
from __future__ import annotations

import concurrent.futures as cf

import cloudpickle

from pyiron_workflow.nodes.function import as_function_node
from pyiron_workflow.nodes.macro import as_macro_node

from harness import nodes


@as_macro_node("out")
def MA(self, x):
    """chain of two leaves; x used once (the UI node is purged, the macro input links to a.a)"""
    self.a = nodes.Lin1(tag=100, k=1, a=x)
    self.b = nodes.Lin1(tag=101, k=2, a=self.a)
    return self.b


@as_macro_node("out")
def MB(self, x, y):
    """x feeds two children (its UI node stays as a child), y one"""
    self.p = nodes.Lin2(tag=110, k=3, a=x, b=y)
    self.q = nodes.Lin2(tag=111, k=4, a=self.p, b=x)
    return self.q


@as_macro_node("out")
def MC(self, x, y):
    """nested macro inside a macro"""
    self.p = nodes.Lin2(tag=120, k=5, a=x, b=y)
    self.inner = MA(x=self.p)
    self.q = nodes.Lin2(tag=121, k=6, a=self.inner, b=y)
    return self.q


@as_macro_node("oa", "ob")
def MD(self, x):
    """two outputs, the second one from an inner node that also feeds the first"""
    self.a = nodes.Lin1(tag=130, k=7, a=x)
    self.b = nodes.Chk2(tag=131, k=8, a=self.a, b=x)
    return self.b, self.a


@as_macro_node("out")
def ME(self, x, y):
    """two levels of nesting"""
    self.deep = MC(x=x, y=y)
    self.r = nodes.Chk1(tag=140, k=9, a=self.deep)
    return self.r


@as_function_node("y")
def LinList(tag, k, a):
    """a list for the For node to iterate over"""
    v = nodes.lin(tag, k, [a])
    return [v, v + 1, v + 2]


@as_function_node("y")
def SumList(tag, k, a):
    return nodes.lin(tag, k, [sum(a)])


@as_macro_node("out")
def MF(self, x):
    """the macro's IO is value-linked straight to a nested macro's IO (input down, output up)"""
    self.inner = MA(x=x)
    return self.inner


MACROS = {"MF": (MF, ["x"], ["out"]), "MA": (MA, ["x"], ["out"]), "MB": (MB, ["x", "y"], ["out"]), "MC": (MC, ["x", "y"], ["out"]),
          "MD": (MD, ["x"], ["oa", "ob"]), "ME": (ME, ["x", "y"], ["out"])}


class PickleBoundaryExecutor(cf.Executor):
    def __init__(self, ident=0):
        self.ident = ident
        self.jobs = []      # (future, blob)

    def submit(self, fn, /, *args, **kwargs):
        blob = cloudpickle.dumps((fn, args, kwargs))          # what crosses: the bound method = the node itself
        fut = cf.Future()
        fut.set_running_or_notify_cancel()
        self.jobs.append((fut, blob))
        return fut

    def complete(self, fut):
        for j in self.jobs:
            if j[0] is fut:
                self.jobs.remove(j)
                try:
                    fn, args, kwargs = cloudpickle.loads(j[1])
                    back = cloudpickle.dumps(fn(*args, **kwargs))
                except BaseException as e:      # noqa
                    try:
                        e = cloudpickle.loads(cloudpickle.dumps(e))
                    except BaseException:       # noqa
                        e = RuntimeError(f"unpicklable {type(e).__name__}")
                    fut.set_exception(e)
                else:
                    fut.set_result(cloudpickle.loads(back))
                return True
        return False

    def shutdown(self, wait=True, *, cancel_futures=False):
        pass

    def __reduce__(self):       # an executor INSTANCE never crosses (Runnable.__getstate__ drops it); be loud if it does
        raise TypeError("PickleBoundaryExecutor instance must not be pickled")


REGISTRY: dict = {}     # ident -> executor (manual / pickle boundary), shared with instruction executors


def reset_registry():
    REGISTRY.clear()


def get_pbe(ident):
    """construction instructions for an executor: always the same registered instance"""
    if ident not in REGISTRY:
        REGISTRY[ident] = PickleBoundaryExecutor(ident)
    return REGISTRY[ident]


def pending():
    """all (executor, future) jobs not yet completed, in (executor id, submission) order"""
    out = []
    for ident in sorted(REGISTRY):
        ex = REGISTRY[ident]
        for j in list(ex.jobs):
            out.append((ex, j[0]))
    return out
