"""Node library shared by the implementation drivers: deterministic functions that log
their calls, a manual (single-threaded, schedule-controlled) executor, and event logging
of the parent's start/finish registrations."""
from __future__ import annotations

import concurrent.futures as cf
import contextlib

from pyiron_workflow import Workflow
from pyiron_workflow.nodes.function import as_function_node

M = 1_000_003
CALLS: list = []      # (tag, [args]) per function call
FAIL: set = set()     # tags whose function raises while listed here
EVENTS: list = []     # ("s"|"f", parent full label, child label) in real time order


class UserExc(Exception):
    def __init__(self, tag):
        super().__init__(f"user failure in {tag}")
        self.tag = tag


from pyiron_workflow.mixin.run import ReadinessError as _ReadinessError  # noqa: E402


class UserReadiness(UserExc, _ReadinessError):
    """a ReadinessError raised by a node FUNCTION (e.g. from a helper node it runs): still a failure of that node"""


class UserIndexError(UserExc, IndexError):
    """an IndexError raised by a node FUNCTION: the library's own loops catch IndexError for their queue handling"""


class UserInterrupt(KeyboardInterrupt):
    """a KeyboardInterrupt raised inside a node FUNCTION (Ctrl-C while the body executes): the library handles it like a
    failure of that node.  Only raised when a harness opts in (KI_ENABLED), because drivers must catch BaseException for it"""
    def __init__(self, tag):
        super().__init__(f"user interrupt in {tag}")
        self.tag = tag


ON_CALL: list = []    # callbacks(tag) invoked whenever a chk-function starts executing (schedulers use it to let an
# executor job complete WHILE a local sibling runs); reset() empties it
KI_ENABLED = False      # set by the harnesses whose drivers are prepared for UserInterrupt (reset() leaves it alone)


class UserKeyError(UserExc, KeyError):
    """a KeyError raised by a node FUNCTION"""


class UserAttributeError(UserExc, AttributeError):
    """an AttributeError raised by a node FUNCTION: the library suppresses AttributeError in several of its own look-ups"""


def lin(tag, k, args):
    CALLS.append((tag, list(args)))
    if tag in FAIL:
        raise UserExc(tag)
    return (k + sum((i + 1) * a for i, a in enumerate(args))) % M


@as_function_node("y")
def Lin0(tag, k):
    return lin(tag, k, [])


@as_function_node("y")
def Lin1(tag, k, a):
    return lin(tag, k, [a])


@as_function_node("y")
def Lin2(tag, k, a, b):
    return lin(tag, k, [a, b])


@as_function_node("y")
def Lin3(tag, k, a, b, c):
    return lin(tag, k, [a, b, c])


@as_function_node("y")
def Lin4(tag, k, a, b, c, d):
    return lin(tag, k, [a, b, c, d])


LIN = [Lin0, Lin1, Lin2, Lin3, Lin4]
ARG = ["a", "b", "c", "d"]


def reset():
    CALLS.clear()
    FAIL.clear()
    EVENTS.clear()
    ON_CALL.clear()


class SyncExecutor(cf.Executor):
    """an executor that finishes every job inside submit(): the future handed back is already done, so the library's
    done-callback runs during add_done_callback, before the submitting node's run() returns"""
    def submit(self, fn, /, *args, **kwargs):
        fut = cf.Future()
        fut.set_running_or_notify_cancel()
        try:
            r = fn(*args, **kwargs)
        except BaseException as e:      # noqa
            fut.set_exception(e)
        else:
            fut.set_result(r)
        return fut


class ManualExecutor(cf.Executor):
    """submit() only records the job; the driver completes jobs one by one, in the order
    the scenario prescribes, from the parent's poll point (same thread)."""

    def __init__(self, pending=False):
        self.jobs = []    # (future, fn, args, kwargs)
        self.pending = pending      # True: a submitted job is PENDING (can still be cancelled) until it is completed

    def submit(self, fn, /, *args, **kwargs):
        fut = cf.Future()
        if not self.pending:
            fut.set_running_or_notify_cancel()
        self.jobs.append((fut, fn, args, kwargs))
        return fut

    def cancel(self, fut):
        """withdraw a pending job: the future's callbacks run with CancelledError"""
        for j in self.jobs:
            if j[0] is fut:
                self.jobs.remove(j)
                return fut.cancel()
        return False

    def complete(self, fut):
        for j in self.jobs:
            if j[0] is fut:
                self.jobs.remove(j)
                _, fn, args, kwargs = j
                if self.pending and not fut.set_running_or_notify_cancel():
                    return False
                try:
                    r = fn(*args, **kwargs)
                except BaseException as e:      # noqa
                    fut.set_exception(e)
                else:
                    fut.set_result(r)
                return True
        return False


@contextlib.contextmanager
def poll_hook(fn):
    """replace the parent's sleep-while-children-run by a callback (the schedule)"""
    import pyiron_workflow.nodes.composite as comp
    old = comp.sleep
    state = {"idle": 0}

    def hook(_dt):
        if fn() is False:
            state["idle"] += 1
            if state["idle"] > 50:
                raise RuntimeError("schedule exhausted while children are still running")
        else:
            state["idle"] = 0
    comp.sleep = hook
    try:
        yield
    finally:
        comp.sleep = old


@contextlib.contextmanager
def event_log():
    """record the merged order of child start/finish registrations (harness-side wrapper)"""
    from pyiron_workflow.nodes.composite import Composite
    s0, f0 = Composite.register_child_starting, Composite.register_child_finished

    def s1(self, child):
        EVENTS.append(("s", self.full_label, child.label))
        return s0(self, child)

    def f1(self, child):
        r = f0(self, child)
        EVENTS.append(("f", self.full_label, child.label))
        return r
    Composite.register_child_starting, Composite.register_child_finished = s1, f1
    try:
        yield
    finally:
        Composite.register_child_starting, Composite.register_child_finished = s0, f0


def exc_kind(e: BaseException):
    """canonical description of an exception chain"""
    out = []
    seen = 0
    while e is not None and seen < 6:
        if isinstance(e, (UserExc, UserInterrupt)):
            out.append(["UserExc", e.tag])
        else:
            out.append([type(e).__name__])
        e = e.__cause__
        seen += 1
    return out


def chk(tag, k, args):
    """lin, but raising UserExc when an argument is negative: failure is decided by the arguments alone"""
    CALLS.append((tag, list(args)))
    for h in list(ON_CALL):
        h(tag)
    if any(a == -7 for a in args):
        raise UserReadiness(tag)     # the user's function raises the library's own ReadinessError type
    if any(a == -8 for a in args):
        raise UserIndexError(tag)    # ... or a builtin exception type the library's own loops also catch
    if any(a == -9 for a in args):
        raise UserKeyError(tag)
    if any(a == -5 for a in args):
        raise UserAttributeError(tag)
    if KI_ENABLED and any(a == -6 for a in args):
        raise UserInterrupt(tag)     # Ctrl-C landing inside the body
    if any(a < 0 for a in args):
        raise UserExc(tag)
    return (k + sum((i + 1) * a for i, a in enumerate(args))) % M


@as_function_node("y")
def Chk1(tag, k, a):
    return chk(tag, k, [a])


@as_function_node("y")
def Chk2(tag, k, a, b):
    return chk(tag, k, [a, b])

import logging as _logging
_logging.getLogger("concurrent.futures").setLevel(_logging.CRITICAL)   # "exception calling callback" noise (see C06/S6)


@as_function_node("y")
def Chk1x(tag, k, a):
    """same interface as Chk1, different function (for replacements)"""
    return (chk(tag, k, [a]) + 1000) % M
